#!/bin/bash
# dev helper: run core harnesses matching filters in a persistent scratch copy (/var/tmp/vt).
# usage: dev_run.sh [-t secs] [-m GB] [-j N] [-s] [-T tag] filter...
T=600; M=16; J=8; STUB=""; FS=""; TAG=core; EXTRA=""
while getopts "t:m:j:sT:nEfC:" o; do case $o in t) T=$OPTARG;; m) M=$OPTARG;; j) J=$OPTARG;; s) STUB="-Z stubbing";; T) TAG=$OPTARG;; n) FS="";; f) FS="--cbmc-args --max-field-sensitivity-array-size 512";; E) export VERIF_THOROUGH=1;; C) FS="--cbmc-args $OPTARG";; esac; done
shift $((OPTIND-1))
H=""; for f in "$@"; do H="$H --harness $f"; done
mkdir -p /var/tmp/vt/repo/.cargo
rsync -a --exclude /target --exclude /.git --exclude /.cargo /repo/ /var/tmp/vt/repo/
printf '[net]\noffline = true\n\n[patch.crates-io]\ntracing = { path = "/verif/shims/tracing" }\n' > /var/tmp/vt/repo/.cargo/config.toml
cd /var/tmp/vt/repo
ulimit -v $((M*1024*1024))
export TRIPPY_VERIF_HARNESS=/verif/harness/core
rm -f /var/tmp/vt/out-$TAG.json
timeout $((T*3+120)) cargo kani -p trippy-core --target-dir /var/tmp/vt/$TAG -j $J --output-format terse $STUB -Z unstable-options --export-json /var/tmp/vt/out-$TAG.json --harness-timeout ${T}s $H $FS > /var/tmp/vt/log-$TAG.txt 2>&1
grep -E "^error|^Thread [0-9]+: Checking|VERIFICATION:|Failed Checks|File:|cover properties|failed \(|Verification Time|out of memory|Summary|Complete -|timed out|TIMEOUT" /var/tmp/vt/log-$TAG.txt | grep -v "^Thread.*Checking" | head -${LINES_MAX:-80}
python3 - <<PY
import json,os
p='/var/tmp/vt/out-$TAG.json'
if os.path.exists(p):
    d=json.load(open(p))
    st={c['harness_id']:c.get('cbmc_stats',{}) for c in d.get('cbmc',[])}
    pr={c['harness_id']:c.get('property_details',{}) for c in d.get('property_details',[])}
    for r in d['verification_results']['results']:
        h=r["harness_id"]; s=st.get(h) or {}; q=pr.get(h) or {}
        print("%-70s %-8s %6.0fs symex=%.0fs solver=%.0fs failed=%s undet=%s cov=%s/%s"%(h.split('::')[-1],r['status'],r['duration_ms']/1000,s.get('runtime_symex_s',0) or 0,s.get('runtime_solver_s',0) or 0,q.get('failed'),q.get('undetermined'),q.get('satisfied'),(q.get('satisfied',0) or 0)+(q.get('unsatisfiable',0) or 0)))
PY
