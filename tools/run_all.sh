#!/bin/bash
# run the quick (or given) tier of the listed properties sequentially; log exit codes
TIER=${TIER:-quick}
mkdir -p /var/tmp/vt/runs
for p in "$@"; do
  s=$(date +%s)
  python3 /verif/check.py $p --tier $TIER > /var/tmp/vt/runs/$p.$TIER.out 2> /var/tmp/vt/runs/$p.$TIER.err
  rc=$?
  echo "$p rc=$rc $(( $(date +%s) - s ))s $(tail -1 /var/tmp/vt/runs/$p.$TIER.out | cut -c1-200)" >> /var/tmp/vt/runs/summary.$TIER.txt
done
