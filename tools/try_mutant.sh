#!/bin/bash
# usage: try_mutant.sh <MID> <worktree> <outdir> <demo-test-name> <prop> [check.py args...]
# 1. confirms in the scratch worktree: suite passes with the bug, demo fails with / passes without
# 2. runs the property's check against a throw-away clone of /repo with the bug applied
#    (TRIPPY_REPO): /repo itself is never touched, so several trials can run side by side
MID=$1; WT=$2; OUT=$3; DEMO=$4; PROP=$5; shift 5
LOG=/var/tmp/vt/mutants/$MID; mkdir -p $LOG
if [ -z "$SKIP_CONFIRM" ]; then
cd $WT && git checkout -q -- . && git clean -fdq -e target
git apply $OUT/patch.diff || { echo "$MID patch does not apply"; exit 9; }
CARGO_TARGET_DIR=$WT/target cargo test --workspace --offline -j 6 > $LOG/suite_with_bug.txt 2>&1; echo "$MID suite_with_bug rc=$? $(grep -c 'test result: ok' $LOG/suite_with_bug.txt) ok-lines, failed: $(grep -c 'FAILED' $LOG/suite_with_bug.txt)"
git apply $OUT/demo.diff || { echo "$MID demo does not apply"; }
CARGO_TARGET_DIR=$WT/target cargo test --workspace --offline -j 6 $DEMO > $LOG/demo_with_bug.txt 2>&1; echo "$MID demo_with_bug rc=$? (expect !=0)"
git checkout -q -- . && git clean -fdq -e target && git apply $OUT/demo.diff
CARGO_TARGET_DIR=$WT/target cargo test --workspace --offline -j 6 $DEMO > $LOG/demo_without_bug.txt 2>&1; echo "$MID demo_without_bug rc=$? (expect 0) ran: $(grep -h 'test result' $LOG/demo_without_bug.txt | grep -v ' 0 passed' | head -2 | tr '\n' ' ')"
git checkout -q -- . && git clean -fdq -e target
fi
R=/var/tmp/mut/$MID; rm -rf $R; mkdir -p $R && git clone -q /repo $R/repo && git -C $R/repo apply $OUT/patch.diff || { echo "$MID clone/apply failed"; exit 8; }
s=$(date +%s)
TRIPPY_REPO=$R/repo TRIPPY_VERIF_SCRATCH=/var/tmp/trippy-verif.$MID python3 /verif/check.py $PROP --no-evidence "$@" > $LOG/check.out 2> $LOG/check.err; rc=$?
rm -rf $R
echo "$MID check $PROP rc=$rc $(( $(date +%s) - s ))s"; grep -h "VIOLATION\|INCONCLUSIVE\|tier=" $LOG/check.out | cut -c1-300
