#!/bin/bash
# usage: try_mutant.sh <MID> <worktree> <outdir> <demo-test-name> <prop> [check.py args...]
# 1. confirms in the scratch worktree: suite passes with the bug, demo fails with / passes without
# 2. applies the bug to /repo, runs the property's check, reverts /repo
MID=$1; WT=$2; OUT=$3; DEMO=$4; PROP=$5; shift 5
LOG=/var/tmp/vt/mutants/$MID; mkdir -p $LOG
cd $WT && git checkout -q -- . && git clean -fdq -e target
git apply $OUT/patch.diff || { echo "patch does not apply"; exit 9; }
CARGO_TARGET_DIR=$WT/target cargo test --workspace --offline -j 8 > $LOG/suite_with_bug.txt 2>&1; echo "suite_with_bug rc=$? $(grep -c 'test result: ok' $LOG/suite_with_bug.txt) ok-lines, failed: $(grep -c 'FAILED' $LOG/suite_with_bug.txt)"
git apply $OUT/demo.diff || { echo "demo does not apply"; }
CARGO_TARGET_DIR=$WT/target cargo test --workspace --offline -j 8 $DEMO > $LOG/demo_with_bug.txt 2>&1; echo "demo_with_bug rc=$? (expect !=0)"
git checkout -q -- . && git clean -fdq -e target && git apply $OUT/demo.diff
CARGO_TARGET_DIR=$WT/target cargo test --workspace --offline -j 8 $DEMO > $LOG/demo_without_bug.txt 2>&1; echo "demo_without_bug rc=$? (expect 0) ran: $(grep -h 'test result' $LOG/demo_without_bug.txt | grep -v ' 0 passed' | head -2 | tr '\n' ' ')"
git checkout -q -- . && git clean -fdq -e target
# --- run the check against /repo with the bug applied
cd /repo && git status --short | grep -q . && { echo "/repo not clean"; exit 8; }
git -C /repo apply $OUT/patch.diff
s=$(date +%s)
python3 /verif/check.py $PROP --no-evidence "$@" > $LOG/check.out 2> $LOG/check.err; rc=$?
git -C /repo checkout -- .
echo "check $PROP rc=$rc $(( $(date +%s) - s ))s"; grep -h "VIOLATION\|INCONCLUSIVE\|tier=" $LOG/check.out | cut -c1-300
