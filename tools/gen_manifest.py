#!/usr/bin/env python3
"""Generate /verif/MANIFEST.json (single source of truth for the per-property claims)."""
import json
import os
import subprocess
import sys

VERIF = os.path.dirname(os.path.dirname(os.path.abspath(__file__)))

TECH = ("bounded model checking of the compiled Rust code: Kani 0.68 proof harnesses over kani::any() inputs, "
        "decided by CBMC 6.11 + CaDiCaL (SAT) over all values within the stated bounds; counterexamples replayed "
        "natively (concrete playback) before they are reported")

COMMON_NOTE = ("Trusted: Kani's MIR->GOTO translation, CBMC, CaDiCaL; the tracing shim (spans/events are no-ops); "
               "harness-side oracles (RFC bit-range tables, RFC 1071 reference loop, independent RFC-offset decoders, "
               "the restated documented rules). Claims hold only within the bounds listed in the evidence file.")

CLAIMS = {
    "C01": ("One inductive step of the tracer's loop is exact, for every pre-state satisfying the stated representation "
            "invariant INV: the send step hands the network exactly the probe it stores as Awaited (or marks exactly that "
            "probe Failed), the receive step completes exactly the awaited probe the response names with the response's "
            "responder / receive time / kind / code and the probe's own ttl / send time, and publish exposes exactly the "
            "round's slots; the identity round-trip (both tiers) and the quotation parsers (thorough tier) of C02 run under this "
            "property too. "
            "Whole-run quantification follows by induction over steps (not by a solver query).",
            "Slot effects are decided at representative concrete window positions (round_sequence, size) with every other "
            "field symbolic; scalar behaviour for all positions. Not covered: per-hop totals in a snapshot (aggregator, see "
            "C05), the six-line glue of recv_response between decision and effect (read, not encoded); the emit side of "
            "the wire contract is C11."),
    "C02": ("The loop encode -> quote -> decode -> match is closed compositionally across a byte-level wire contract: "
            "(a) for all 2^16 sequences x rounds x ports x addresses per configuration family, the identity probe_data puts "
            "into a probe is recovered from a conforming quotation and accepted, and a quotation with another destination, "
            "another fixed port, a missing Dublin marker or a foreign ICMP id is rejected; (b) dispatch puts those fields "
            "where the contract says (the dispatch harnesses of C11 / C13: under this property in the thorough tier); (c) the extract functions read them from there for every quotation of "
            "symbolic content and length up to the bound.",
            "Quotation length bound N = 48/64 bytes (IPv4 IHL 5..15), IPv6 48..64/80; composition across the contract is by "
            "reading; the RFC 4884 extension split is C14; unprivileged kernel-built headers are outside the claim."),
    "C03": ("For every response (5 kinds x 3 protocol payloads, all fields symbolic), configuration and window the real "
            "validate / StrategyResponse::from / check_trace_id / in_round accept exactly the responses naming this tracer "
            "and a sequence inside the current round; a response for a slot that is already Complete, never sent, Skipped or "
            "Failed leaves every probe and the round bookkeeping unchanged; previous-round sequences are outside the window "
            "after advance_round (C07 separation lemma, with the recorded findings F7/F8).",
            "pid+i identifier assignment lives in trippy-tui (not encodable); the composition decision o effect inside "
            "recv_response is by reading."),
    "C04": ("No panic, overflow, out-of-bounds or non-terminating loop for: every accessor of every packet view over an "
            "arbitrary buffer (N = 64 quick / 160 thorough) of at least the minimum size; extension_splitter::split for every "
            "length 0..=2040 x every body length 0..=1024; the object and label-stack iterators over any <= 32-byte buffer; "
            "the real receive path Ipv4/Ipv6::recv_icmp_probe over a socket returning arbitrary bytes (every length up to N = 72 "
            "quick / 96 thorough) for every protocol with extension parsing off; ProtocolStrategyResponse::from and "
            "complete_probe on arbitrary responses.",
            "Receive-path bound is N bytes, not the full 1024-byte buffer (beyond N only split and the checksum loop depend on "
            "length: both covered for the full range). The extension-enabled receive path and Extensions::try_from "
            "(flat_map + collect) are outside reach; their no-panic argument is the composition of split (all lengths), the "
            "iterator guarantees and the accessor harnesses. In the UDP/IPv4 receive harness calc_udp_checksum is cut "
            "(decided for every size by its own harness)."),
    "C06": ("One send_request step from every INV state (ttl, farthest-answered ttl, target distance, target-found, "
            "first/max ttl, max-inflight all symbolic) against a network answering with an arbitrary outcome: a probe goes "
            "out only inside the discipline (ttl = the state's counter, <= max-ttl, not after the target answered, <= known "
            "target distance, <= max-inflight beyond the farthest answered hop), the first probe of a round always goes out, "
            "the ttl counter moves by exactly one per fresh probe and not at all per TCP re-issue; advance_round restarts "
            "every round at first-ttl with the target / progress bookkeeping cleared. Consecutiveness over a round follows "
            "by induction.", "Slot contents at representative window positions; real-time pacing is outside."),
    "C07": ("INV (sequence window arithmetic) is preserved by every mutator for all initial sequences, both maximum-sequence "
            "regimes and all round sizes in single queries: issued sequences are consecutive, < 65534, index < 512; the "
            "Dublin/IPv6 payload length fits the buffer; after advance_round no sequence of the round just ended is inside "
            "the new window; the 512-slot budget ends in InsufficientCapacity, never an out-of-bounds slot; the builder "
            "rejects initial sequences above MAX_INITIAL_SEQUENCE (base of INV).",
            "Separation has two recorded findings (F7: initial > 63999; F8: Dublin/IPv6 regime) decided by region-twin "
            "harnesses. next_probe is decided for all window positions; reissue_probe at seven representative positions in "
            "the quick tier (all positions and the base case TracerState::new |= INV in the thorough tier)."),
    "C08": ("One update_round call with the clock reading, round start, last-response time and the three durations all "
            "symbolic (seconds < 2^32, clock may step backwards): published iff the timing policy says, reason tells which, "
            "round id +1, next round starts at the next clock reading, otherwise nothing changes.",
            "'max + one read timeout' follows from the iff under the assumption that loop iterations are at most one read "
            "timeout apart (is_readable's wall-clock behaviour is outside)."),
    "C09": ("finished(n) <=> round >= n for all n; each publish advances the round id by exactly one (C08 harness and the "
            "round-to-round step); send "
            "faults: ProbeFailed marks exactly that probe Failed and continues, AddressInUse (TCP) skips the slot and "
            "re-issues with the same ttl under the next sequence, any other error is returned unchanged; receive errors are "
            "returned unchanged; ErrorMapper maps every errno class as documented.",
            "Whole-loop runs are by induction over the step harnesses; handle_error's String formatting is outside."),
    "C10": ("publish_trace from every INV state reports largest_ttl = known target distance, else 0 iff nothing answered, "
            "else min(highest sent, highest answered + 1), always 0 or within [first_ttl, 254]; FlowState's hops / target_hop "
            "/ is_target / is_in_round never fail and return the gap-free ascending run for every window satisfying WIN.",
            "That the aggregator maintains WIN (three assignments in StateUpdater::apply) is by reading: update_for_probe is "
            "outside reach (measured)."),
    "C11": ("The real dispatch functions over a capturing socket, with sequence, identifier, ports, ttl, tos and both "
            "addresses symbolic, produce bytes that an independent RFC decoder reads back as configured (version/IHL, "
            "lengths, ttl, tos, DF, protocol, addresses, sequence field per strategy, trace id, payload pattern, valid "
            "ICMP/UDP checksums, Paris checksum = sequence); size guards return InvalidPacketSize.",
            "Packet sizes {min, min+1, min+9} and guard values; payload pattern concrete in the quick tier; Linux byte order."),
    "C12": ("Every setter/getter pair of every view: arbitrary pre-existing buffer, setter argument over its full width in "
            "one query; get(set(v)) = v truncated, every bit outside the RFC bit range unchanged, bits in network order; "
            "constructors succeed iff len >= minimum; payload placement honours IHL / data offset.",
            "RFC bit-range table in the harness is the oracle."),
    "C13": ("The six checksum functions equal the RFC 1071 reference (checksum field read as zero) for symbolic content, "
            "symbolic length <= N (64 quick / 256 thorough) and symbolic addresses; folding lemma over all 2^32 sums gives "
            "'sums to 0xFFFF after insertion'; the Paris swap in the real dispatch leaves checksum = sequence and a "
            "datagram that verifies, for all 2^16 sequences.", "Lengths above N are outside the symbolic-length claim."),
    "C14": ("split and the four real views for every length byte x every message length satisfy the structural "
            "post-conditions (prefix / suffix / no overlap / inside the message / split point); encoded objects, labels and "
            "EXP/S/TTL values are decoded exactly, in order, nothing invented; iterators terminate and never leave the "
            "buffer; trippy-core's leaf conversions copy fields exactly.",
            "<= 2 objects, <= 2 labels, iterator buffers <= 32 bytes; Extensions::try_from's flat_map/collect plumbing is "
            "outside reach (read)."),
    "C15": ("FlowRegistry::register / Flow::check / merge / from_hops over registries of <= 2 flows x <= 3 entries and a new "
            "flow of <= 3 entries with symbolic addresses: returned id's flow agrees with every known input entry, nothing "
            "recorded is forgotten or contradicted, ids are dense from 1, first match wins.",
            "max_flows gate, round attribution and per-flow statistics live in State::update_from_round (outside reach)."),
    "C16": ("Builder::build's validation restated and checked against the real build(); every accepted configuration can "
            "execute a send step and a publish without reaching unimplemented!() / underflow, and every emitted ttl "
            "satisfies the aggregator's indexing contract; Channel::dispatch_tcp_probe never panics for any number of "
            "outstanding TCP probes; the round-to-round step (advance_round), the next-probe step and the Dublin/IPv6 payload "
            "slice keep / rely on the representation invariant for every accepted configuration, so no later round can "
            "index out of range either.", "CLI > file > default precedence (trippy-tui, clap/TOML) is not encodable: not claimed."),
    "C19": ("nat_status truth table for all 2^16 x 2^16 x Option<2^16> inputs; checksums are produced only for Dublin/IPv4 "
            "UDP; the expected checksum computed on receipt equals the checksum dispatch put on the wire.",
            "Per-round carry-forward inside update_for_probe is outside reach (read)."),
}

NOT_APPLICABLE = {
    "C05": "StateUpdater::update_for_probe cannot be symbolically executed within reach (measured: one probe > 25 min, "
           "8-11 GB) and its mean/stddev/jitter clauses are IEEE-754 statements needing a rounding-error proof, not a "
           "bounded SAT query.",
    "C17": "ratatui rendering, String/format!/unicode-width and a TuiApp that cannot be constructed without spawning the DNS "
           "resolver thread: trippy-tui cannot be compiled under Kani; no reachable sub-kernel.",
    "C18": "same as C17: frame contents are produced by ratatui/format! code that Kani/CBMC cannot encode.",
    "C20": "a property of thread interleavings over a parking_lot RwLock; Kani rejects concurrency.",
}


def main():
    sys.path.insert(0, os.path.join(VERIF, "harness"))
    import table
    have = set()
    for g in table.GROUPS:
        ps = g["property"] if isinstance(g["property"], list) else [g["property"]]
        have.update(ps)
    only = set(sys.argv[1:]) if len(sys.argv) > 1 else None
    checks = []
    pending = {}
    for pid in sorted(CLAIMS):
        if pid not in have or (only is not None and pid not in only):
            pending[pid] = "check under construction in this session (harnesses not yet registered)"
            continue
        text, note = CLAIMS[pid]
        checks.append({
            "property_id": pid,
            "quick_cmd": "python3 check.py %s --tier quick" % pid,
            "thorough_cmd": "python3 check.py %s --tier thorough" % pid,
            "evidence_file": "/verif/evidence/%s.json" % pid,
            "replay_cmd_template": "python3 check.py %s --replay {path}" % pid,
            "engine": "kani-cbmc",
            "level_claimed": {"category": "model_checking", "text": text, "design_ref": "DESIGN.md section 3, " + pid},
            "level_note": note + " " + COMMON_NOTE,
            "technique": TECH,
        })
    hooks_commits = subprocess.run(["git", "-C", "/repo", "log", "--format=%h %s", "--grep", "^verif hooks"],
                                   capture_output=True, text=True).stdout.strip().splitlines()
    na = [{"property_id": k, "reason": v} for k, v in sorted(NOT_APPLICABLE.items())]
    na += [{"property_id": k, "reason": v} for k, v in sorted(pending.items())]
    m = {
        "version": 1,
        "setup_cmd": "python3 check.py --list > /dev/null",
        "hooks": {
            "guard": "cfg(kani)",
            "enable": "set only by the Kani compiler: `cargo kani -p trippy-core` in a scratch copy of /repo with "
                      "TRIPPY_VERIF_HARNESS=<copy of /verif/harness/core>; the hooks are `#[cfg(kani)] mod verif { include!(..) }` "
                      "child modules; trippy-packet needs no hook (external harness crate /verif/kani/packet)",
            "baseline_off_cmd": "cd /repo && cargo test --workspace --no-fail-fast --offline",
            "source_commits": hooks_commits,
            "add_only": True,
        },
        "engines": [{"name": "kani-cbmc", "path": "/verif/check.py",
                     "serves_properties": [c["property_id"] for c in checks],
                     "kind_free_text": "Kani 0.68 / CBMC 6.11 / CaDiCaL bounded model checking of the real crates; driver "
                                       "check.py, harness table harness/table.py, harness sources harness/core/*.rs and "
                                       "kani/packet/src/*.rs"}],
        "checks": checks,
        "not_applicable": na,
        "notes": "exit 0 = all obligations discharged (KNOWN-FINDING lines for findings listed in known_findings.json); "
                 "exit 1 = VIOLATION (counterexample reproduced natively); exit 2 = inconclusive (timeout / memory / "
                 "vacuous harness / non-reproducing counterexample) - never reported as success.",
    }
    json.dump(m, open(os.path.join(VERIF, "MANIFEST.json"), "w"), indent=1)
    print("claimed:", [c["property_id"] for c in checks], "pending:", sorted(pending))


if __name__ == "__main__":
    main()
