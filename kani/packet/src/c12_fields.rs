//! C12 — every setter/getter pair of every view, against the RFC bit-range oracle.
//!
//! One harness per field: arbitrary pre-existing buffer (minimum header + 4 trailing bytes),
//! arbitrary value of the setter's full argument width; after `set_x(v)`:
//!   * `get_x()` == v truncated to the field width (mutable view and read-only view),
//!   * every bit outside the field's RFC bit range is unchanged,
//!   * the field's bits are `v` in network order.
use crate::util::{expect_field, low_mask};
use std::net::{Ipv4Addr, Ipv6Addr};
use trippy_packet::icmp_extension::extension_header::ExtensionHeaderPacket;
use trippy_packet::icmp_extension::extension_object::{ClassNum, ClassSubType, ExtensionObjectPacket};
use trippy_packet::icmp_extension::mpls_label_stack_member::MplsLabelStackMemberPacket;
use trippy_packet::ipv4::Ipv4Packet;
use trippy_packet::ipv6::Ipv6Packet;
use trippy_packet::tcp::TcpPacket;
use trippy_packet::udp::UdpPacket;
use trippy_packet::IpProtocol;
use trippy_packet::{icmpv4, icmpv6};

macro_rules! field {
    ($name:ident, $view:ty, $n:expr, $set:ident, $get:ident, $raw:ty, $off:expr, $w:expr) => {
        field!($name, $view, $n, $set, $get, $raw, $off, $w, |x| x, |g| g as u128);
    };
    ($name:ident, $view:ty, $n:expr, $set:ident, $get:ident, $raw:ty, $off:expr, $w:expr, $mk:expr, $un:expr) => {
        #[kani::proof]
        #[kani::unwind(50)]
        fn $name() {
            const N: usize = $n + 4;
            let before: [u8; N] = kani::any();
            let mut buf = before;
            let raw: $raw = kani::any();
            let want = (raw as u128) & low_mask($w);
            {
                let mut p = <$view>::new(&mut buf).unwrap();
                p.$set(($mk)(raw));
                let got: u128 = ($un)(p.$get());
                assert!(got == want, "getter after setter (mutable view)");
            }
            expect_field(&before, &buf, $off, $w, raw as u128);
            let snapshot = buf;
            {
                let q = <$view>::new_view(&buf).unwrap();
                let got: u128 = ($un)(q.$get());
                assert!(got == want, "getter on read-only view");
            }
            let mut i = 0;
            while i < N {
                assert!(snapshot[i] == buf[i]);
                i += 1;
            }
        }
    };
}

// ---------------------------------------------------------------- IPv4 (RFC 791 / 2474 / 3168)
field!(c12_ipv4_version, Ipv4Packet<'_>, 20, set_version, get_version, u8, 0, 4);
field!(c12_ipv4_header_length, Ipv4Packet<'_>, 20, set_header_length, get_header_length, u8, 4, 4);
field!(c12_ipv4_dscp, Ipv4Packet<'_>, 20, set_dscp, get_dscp, u8, 8, 6);
field!(c12_ipv4_ecn, Ipv4Packet<'_>, 20, set_ecn, get_ecn, u8, 14, 2);
field!(c12_ipv4_tos, Ipv4Packet<'_>, 20, set_tos, get_tos, u8, 8, 8);
field!(c12_ipv4_total_length, Ipv4Packet<'_>, 20, set_total_length, get_total_length, u16, 16, 16);
field!(c12_ipv4_identification, Ipv4Packet<'_>, 20, set_identification, get_identification, u16, 32, 16);
field!(c12_ipv4_flags_frag, Ipv4Packet<'_>, 20, set_flags_and_fragment_offset, get_flags_and_fragment_offset, u16, 48, 16);
field!(c12_ipv4_ttl, Ipv4Packet<'_>, 20, set_ttl, get_ttl, u8, 64, 8);
field!(c12_ipv4_protocol, Ipv4Packet<'_>, 20, set_protocol, get_protocol, u8, 72, 8,
    |x: u8| IpProtocol::from(x), |g: IpProtocol| g.id() as u128);
field!(c12_ipv4_checksum, Ipv4Packet<'_>, 20, set_checksum, get_checksum, u16, 80, 16);
field!(c12_ipv4_source, Ipv4Packet<'_>, 20, set_source, get_source, u32, 96, 32,
    |x: u32| Ipv4Addr::from(x), |g: Ipv4Addr| u32::from(g) as u128);
field!(c12_ipv4_destination, Ipv4Packet<'_>, 20, set_destination, get_destination, u32, 128, 32,
    |x: u32| Ipv4Addr::from(x), |g: Ipv4Addr| u32::from(g) as u128);

// ---------------------------------------------------------------- IPv6 (RFC 8200)
field!(c12_ipv6_version, Ipv6Packet<'_>, 40, set_version, get_version, u8, 0, 4);
field!(c12_ipv6_traffic_class, Ipv6Packet<'_>, 40, set_traffic_class, get_traffic_class, u8, 4, 8);
field!(c12_ipv6_flow_label, Ipv6Packet<'_>, 40, set_flow_label, get_flow_label, u32, 12, 20);
field!(c12_ipv6_payload_length, Ipv6Packet<'_>, 40, set_payload_length, get_payload_length, u16, 32, 16);
field!(c12_ipv6_next_header, Ipv6Packet<'_>, 40, set_next_header, get_next_header, u8, 48, 8,
    |x: u8| IpProtocol::from(x), |g: IpProtocol| g.id() as u128);
field!(c12_ipv6_hop_limit, Ipv6Packet<'_>, 40, set_hop_limit, get_hop_limit, u8, 56, 8);
field!(c12_ipv6_source, Ipv6Packet<'_>, 40, set_source_address, get_source_address, u128, 64, 128,
    |x: u128| Ipv6Addr::from(x), |g: Ipv6Addr| u128::from(g));
field!(c12_ipv6_destination, Ipv6Packet<'_>, 40, set_destination_address, get_destination_address, u128, 192, 128,
    |x: u128| Ipv6Addr::from(x), |g: Ipv6Addr| u128::from(g));

// ---------------------------------------------------------------- UDP (RFC 768)
field!(c12_udp_source, UdpPacket<'_>, 8, set_source, get_source, u16, 0, 16);
field!(c12_udp_destination, UdpPacket<'_>, 8, set_destination, get_destination, u16, 16, 16);
field!(c12_udp_length, UdpPacket<'_>, 8, set_length, get_length, u16, 32, 16);
field!(c12_udp_checksum, UdpPacket<'_>, 8, set_checksum, get_checksum, u16, 48, 16);

// ---------------------------------------------------------------- TCP (RFC 9293; NS bit RFC 3540)
field!(c12_tcp_source, TcpPacket<'_>, 20, set_source, get_source, u16, 0, 16);
field!(c12_tcp_destination, TcpPacket<'_>, 20, set_destination, get_destination, u16, 16, 16);
field!(c12_tcp_sequence, TcpPacket<'_>, 20, set_sequence, get_sequence, u32, 32, 32);
field!(c12_tcp_acknowledgement, TcpPacket<'_>, 20, set_acknowledgement, get_acknowledgement, u32, 64, 32);
field!(c12_tcp_data_offset, TcpPacket<'_>, 20, set_data_offset, get_data_offset, u8, 96, 4);
field!(c12_tcp_reserved, TcpPacket<'_>, 20, set_reserved, get_reserved, u8, 100, 3);
field!(c12_tcp_flags, TcpPacket<'_>, 20, set_flags, get_flags, u16, 103, 9);
field!(c12_tcp_window_size, TcpPacket<'_>, 20, set_window_size, get_window_size, u16, 112, 16);
field!(c12_tcp_checksum, TcpPacket<'_>, 20, set_checksum, get_checksum, u16, 128, 16);
field!(c12_tcp_urgent_pointer, TcpPacket<'_>, 20, set_urgent_pointer, get_urgent_pointer, u16, 144, 16);

// ---------------------------------------------------------------- ICMPv4 (RFC 792 / 4884)
macro_rules! icmp_common {
    ($fam:ident, $t:ident, $c:ident, $k:ident, $view:ty) => {
        field!($t, $view, 8, set_icmp_type, get_icmp_type, u8, 0, 8,
            |x: u8| $fam::IcmpType::from(x), |g: $fam::IcmpType| g.id() as u128);
        field!($c, $view, 8, set_icmp_code, get_icmp_code, u8, 8, 8,
            |x: u8| $fam::IcmpCode(x), |g: $fam::IcmpCode| g.0 as u128);
        field!($k, $view, 8, set_checksum, get_checksum, u16, 16, 16);
    };
}
icmp_common!(icmpv4, c12_icmpv4_type, c12_icmpv4_code, c12_icmpv4_checksum, icmpv4::IcmpPacket<'_>);
icmp_common!(icmpv4, c12_icmpv4_echo_request_type, c12_icmpv4_echo_request_code, c12_icmpv4_echo_request_checksum, icmpv4::echo_request::EchoRequestPacket<'_>);
icmp_common!(icmpv4, c12_icmpv4_echo_reply_type, c12_icmpv4_echo_reply_code, c12_icmpv4_echo_reply_checksum, icmpv4::echo_reply::EchoReplyPacket<'_>);
icmp_common!(icmpv4, c12_icmpv4_time_exceeded_type, c12_icmpv4_time_exceeded_code, c12_icmpv4_time_exceeded_checksum, icmpv4::time_exceeded::TimeExceededPacket<'_>);
icmp_common!(icmpv4, c12_icmpv4_dest_unreach_type, c12_icmpv4_dest_unreach_code, c12_icmpv4_dest_unreach_checksum, icmpv4::destination_unreachable::DestinationUnreachablePacket<'_>);
field!(c12_icmpv4_echo_request_identifier, icmpv4::echo_request::EchoRequestPacket<'_>, 8, set_identifier, get_identifier, u16, 32, 16);
field!(c12_icmpv4_echo_request_sequence, icmpv4::echo_request::EchoRequestPacket<'_>, 8, set_sequence, get_sequence, u16, 48, 16);
field!(c12_icmpv4_echo_reply_identifier, icmpv4::echo_reply::EchoReplyPacket<'_>, 8, set_identifier, get_identifier, u16, 32, 16);
field!(c12_icmpv4_echo_reply_sequence, icmpv4::echo_reply::EchoReplyPacket<'_>, 8, set_sequence, get_sequence, u16, 48, 16);
// RFC 4884 section 4.1/4.2: ICMPv4 length attribute is the second octet of the formerly unused word
field!(c12_icmpv4_time_exceeded_length, icmpv4::time_exceeded::TimeExceededPacket<'_>, 8, set_length, get_length, u8, 40, 8);
field!(c12_icmpv4_dest_unreach_length, icmpv4::destination_unreachable::DestinationUnreachablePacket<'_>, 8, set_length, get_length, u8, 40, 8);
field!(c12_icmpv4_dest_unreach_next_hop_mtu, icmpv4::destination_unreachable::DestinationUnreachablePacket<'_>, 8, set_next_hop_mtu, get_next_hop_mtu, u16, 48, 16);

// ---------------------------------------------------------------- ICMPv6 (RFC 4443 / 4884)
icmp_common!(icmpv6, c12_icmpv6_type, c12_icmpv6_code, c12_icmpv6_checksum, icmpv6::IcmpPacket<'_>);
icmp_common!(icmpv6, c12_icmpv6_echo_request_type, c12_icmpv6_echo_request_code, c12_icmpv6_echo_request_checksum, icmpv6::echo_request::EchoRequestPacket<'_>);
icmp_common!(icmpv6, c12_icmpv6_echo_reply_type, c12_icmpv6_echo_reply_code, c12_icmpv6_echo_reply_checksum, icmpv6::echo_reply::EchoReplyPacket<'_>);
icmp_common!(icmpv6, c12_icmpv6_time_exceeded_type, c12_icmpv6_time_exceeded_code, c12_icmpv6_time_exceeded_checksum, icmpv6::time_exceeded::TimeExceededPacket<'_>);
icmp_common!(icmpv6, c12_icmpv6_dest_unreach_type, c12_icmpv6_dest_unreach_code, c12_icmpv6_dest_unreach_checksum, icmpv6::destination_unreachable::DestinationUnreachablePacket<'_>);
field!(c12_icmpv6_echo_request_identifier, icmpv6::echo_request::EchoRequestPacket<'_>, 8, set_identifier, get_identifier, u16, 32, 16);
field!(c12_icmpv6_echo_request_sequence, icmpv6::echo_request::EchoRequestPacket<'_>, 8, set_sequence, get_sequence, u16, 48, 16);
field!(c12_icmpv6_echo_reply_identifier, icmpv6::echo_reply::EchoReplyPacket<'_>, 8, set_identifier, get_identifier, u16, 32, 16);
field!(c12_icmpv6_echo_reply_sequence, icmpv6::echo_reply::EchoReplyPacket<'_>, 8, set_sequence, get_sequence, u16, 48, 16);
// RFC 4884 section 4.4/4.5: ICMPv6 length attribute is the first octet of the formerly unused word
field!(c12_icmpv6_time_exceeded_length, icmpv6::time_exceeded::TimeExceededPacket<'_>, 8, set_length, get_length, u8, 32, 8);
field!(c12_icmpv6_dest_unreach_length, icmpv6::destination_unreachable::DestinationUnreachablePacket<'_>, 8, set_length, get_length, u8, 32, 8);
field!(c12_icmpv6_dest_unreach_next_hop_mtu, icmpv6::destination_unreachable::DestinationUnreachablePacket<'_>, 8, set_next_hop_mtu, get_next_hop_mtu, u16, 48, 16);

// ---------------------------------------------------------------- ICMP extensions (RFC 4884 s7, RFC 4950)
field!(c12_ext_header_version, ExtensionHeaderPacket<'_>, 4, set_version, get_version, u8, 0, 4);
field!(c12_ext_header_checksum, ExtensionHeaderPacket<'_>, 4, set_checksum, get_checksum, u16, 16, 16);
field!(c12_ext_object_length, ExtensionObjectPacket<'_>, 4, set_length, get_length, u16, 0, 16);
field!(c12_ext_object_class_num, ExtensionObjectPacket<'_>, 4, set_class_num, get_class_num, u8, 16, 8,
    |x: u8| ClassNum::from(x), |g: ClassNum| g.id() as u128);
field!(c12_ext_object_class_subtype, ExtensionObjectPacket<'_>, 4, set_class_subtype, get_class_subtype, u8, 24, 8,
    |x: u8| ClassSubType(x), |g: ClassSubType| g.0 as u128);
field!(c12_mpls_label, MplsLabelStackMemberPacket<'_>, 4, set_label, get_label, u32, 0, 20);
field!(c12_mpls_exp, MplsLabelStackMemberPacket<'_>, 4, set_exp, get_exp, u8, 20, 3);
field!(c12_mpls_bos, MplsLabelStackMemberPacket<'_>, 4, set_bos, get_bos, u8, 23, 1);
field!(c12_mpls_ttl, MplsLabelStackMemberPacket<'_>, 4, set_ttl, get_ttl, u8, 24, 8);

/// The assigned numbers the enums stand for (IANA protocol numbers, ICMP types, RFC 4884 classes).
#[kani::proof]
fn c12_assigned_numbers() {
    assert!(IpProtocol::Icmp.id() == 1 && IpProtocol::Tcp.id() == 6 && IpProtocol::Udp.id() == 17 && IpProtocol::IcmpV6.id() == 58);
    assert!(IpProtocol::from(1) == IpProtocol::Icmp && IpProtocol::from(6) == IpProtocol::Tcp);
    assert!(IpProtocol::from(17) == IpProtocol::Udp && IpProtocol::from(58) == IpProtocol::IcmpV6);
    assert!(icmpv4::IcmpType::EchoReply.id() == 0 && icmpv4::IcmpType::DestinationUnreachable.id() == 3);
    assert!(icmpv4::IcmpType::EchoRequest.id() == 8 && icmpv4::IcmpType::TimeExceeded.id() == 11);
    assert!(icmpv4::IcmpType::from(0) == icmpv4::IcmpType::EchoReply && icmpv4::IcmpType::from(3) == icmpv4::IcmpType::DestinationUnreachable);
    assert!(icmpv4::IcmpType::from(8) == icmpv4::IcmpType::EchoRequest && icmpv4::IcmpType::from(11) == icmpv4::IcmpType::TimeExceeded);
    assert!(icmpv6::IcmpType::DestinationUnreachable.id() == 1 && icmpv6::IcmpType::TimeExceeded.id() == 3);
    assert!(icmpv6::IcmpType::EchoRequest.id() == 128 && icmpv6::IcmpType::EchoReply.id() == 129);
    assert!(icmpv6::IcmpType::from(1) == icmpv6::IcmpType::DestinationUnreachable && icmpv6::IcmpType::from(3) == icmpv6::IcmpType::TimeExceeded);
    assert!(icmpv6::IcmpType::from(128) == icmpv6::IcmpType::EchoRequest && icmpv6::IcmpType::from(129) == icmpv6::IcmpType::EchoReply);
    assert!(ClassNum::MultiProtocolLabelSwitchingLabelStack.id() == 1 && ClassNum::from(1) == ClassNum::MultiProtocolLabelSwitchingLabelStack);
    assert!(icmpv4::IcmpTimeExceededCode::from(icmpv4::IcmpCode(0)) == icmpv4::IcmpTimeExceededCode::TtlExpired);
    assert!(icmpv4::IcmpTimeExceededCode::from(icmpv4::IcmpCode(1)) == icmpv4::IcmpTimeExceededCode::FragmentReassembly);
    assert!(icmpv6::IcmpTimeExceededCode::from(icmpv6::IcmpCode(0)) == icmpv6::IcmpTimeExceededCode::TtlExpired);
    let x: u8 = kani::any();
    assert!(IpProtocol::from(x).id() == x);
    assert!(icmpv4::IcmpType::from(x).id() == x);
    assert!(icmpv6::IcmpType::from(x).id() == x);
    assert!(ClassNum::from(x).id() == x);
}

/// Harness-side mutable statics to reset between native witness-search trials (none here).
#[allow(dead_code)]
fn verif_reset_statics() {}
