//! C04 (accessor clause) — every accessor of every packet view over an arbitrary buffer of at
//! least the minimum header size: no panic, no overflow, no out-of-bounds, every loop terminates.
//!
//! `buf: [u8; N]` symbolic, `len` symbolic in `[min, N]`; the view is built over `&buf[..len]`
//! and every getter, `payload()`, `payload_raw()`, `extension()`, `get_options_raw()`, `header()`,
//! `packet()` is called; iterators are run to exhaustion.
use trippy_packet::icmp_extension::extension_header::ExtensionHeaderPacket;
use trippy_packet::icmp_extension::extension_object::ExtensionObjectPacket;
use trippy_packet::icmp_extension::extension_structure::ExtensionsPacket;
use trippy_packet::icmp_extension::mpls_label_stack::MplsLabelStackPacket;
use trippy_packet::icmp_extension::mpls_label_stack_member::MplsLabelStackMemberPacket;
use trippy_packet::ipv4::Ipv4Packet;
use trippy_packet::ipv6::Ipv6Packet;
use trippy_packet::tcp::TcpPacket;
use trippy_packet::udp::UdpPacket;
use trippy_packet::{icmpv4, icmpv6};

/// Buffer bound: 64 in the quick tier, 160 in the thorough tier (VERIF_THOROUGH set by check.py).
const N: usize = if option_env!("VERIF_THOROUGH").is_some() { 160 } else { 64 };

fn any_len(min: usize) -> usize {
    let len: usize = kani::any();
    kani::assume(len >= min && len <= N);
    len
}

/// The slice lies inside the buffer (by address) — "never reads outside the message".
fn inside(outer: &[u8], inner: &[u8]) {
    let o0 = outer.as_ptr() as usize;
    let i0 = inner.as_ptr() as usize;
    assert!(inner.is_empty() || (i0 >= o0 && i0 + inner.len() <= o0 + outer.len()));
}

#[kani::proof]
#[kani::unwind(6)]
fn c04_acc_ipv4() {
    let buf: [u8; N] = kani::any();
    let len = any_len(20);
    let p = Ipv4Packet::new_view(&buf[..len]).unwrap();
    let _ = (p.get_version(), p.get_header_length(), p.get_dscp(), p.get_ecn(), p.get_tos());
    let _ = (p.get_total_length(), p.get_identification(), p.get_flags_and_fragment_offset());
    let _ = (p.get_ttl(), p.get_protocol(), p.get_checksum(), p.get_source(), p.get_destination());
    inside(&buf[..len], p.get_options_raw());
    inside(&buf[..len], p.payload());
    inside(&buf[..len], p.packet());
    kani::cover!(usize::from(p.get_header_length()) * 4 > len, "IHL beyond the buffer");
    kani::cover!(p.get_header_length() < 5, "IHL below minimum");
}

#[kani::proof]
#[kani::unwind(6)]
fn c04_acc_ipv4_mut() {
    let mut buf: [u8; N] = kani::any();
    let len = any_len(20);
    let mut p = Ipv4Packet::new(&mut buf[..len]).unwrap();
    let l = p.get_options_raw_mut().len();
    assert!(l <= 40);
    let _ = p.payload().len();
}

#[kani::proof]
#[kani::unwind(18)]
fn c04_acc_ipv6() {
    let buf: [u8; N] = kani::any();
    let len = any_len(40);
    let p = Ipv6Packet::new_view(&buf[..len]).unwrap();
    let _ = (p.get_version(), p.get_traffic_class(), p.get_flow_label(), p.get_payload_length());
    let _ = (p.get_next_header(), p.get_hop_limit(), p.get_source_address(), p.get_destination_address());
    inside(&buf[..len], p.payload());
    kani::cover!(usize::from(p.get_payload_length()) + 40 > len, "payload length beyond the buffer");
    kani::cover!(len == 40, "header only");
}

#[kani::proof]
#[kani::unwind(6)]
fn c04_acc_udp() {
    let buf: [u8; N] = kani::any();
    let len = any_len(8);
    let p = UdpPacket::new_view(&buf[..len]).unwrap();
    let _ = (p.get_source(), p.get_destination(), p.get_length(), p.get_checksum());
    inside(&buf[..len], p.payload());
    kani::cover!(len == 8, "header only");
}

#[kani::proof]
#[kani::unwind(6)]
fn c04_acc_tcp() {
    let buf: [u8; N] = kani::any();
    let len = any_len(20);
    let p = TcpPacket::new_view(&buf[..len]).unwrap();
    let _ = (p.get_source(), p.get_destination(), p.get_sequence(), p.get_acknowledgement());
    let _ = (p.get_data_offset(), p.get_reserved(), p.get_flags(), p.get_window_size());
    let _ = (p.get_checksum(), p.get_urgent_pointer());
    inside(&buf[..len], p.get_options_raw());
    inside(&buf[..len], p.payload());
    kani::cover!(usize::from(p.get_data_offset()) * 4 > len, "data offset beyond the buffer");
}

macro_rules! acc_icmp_generic {
    ($name:ident, $fam:ident) => {
        #[kani::proof]
        #[kani::unwind(6)]
        fn $name() {
            let buf: [u8; N] = kani::any();
            let len = any_len(8);
            let p = $fam::IcmpPacket::new_view(&buf[..len]).unwrap();
            let _ = (p.get_icmp_type(), p.get_icmp_code(), p.get_checksum());
            inside(&buf[..len], p.packet());
        }
    };
}
acc_icmp_generic!(c04_acc_icmpv4, icmpv4);
acc_icmp_generic!(c04_acc_icmpv6, icmpv6);

macro_rules! acc_echo {
    ($name:ident, $view:ty) => {
        #[kani::proof]
        #[kani::unwind(6)]
        fn $name() {
            let buf: [u8; N] = kani::any();
            let len = any_len(8);
            let p = <$view>::new_view(&buf[..len]).unwrap();
            let _ = (p.get_icmp_type(), p.get_icmp_code(), p.get_checksum(), p.get_identifier(), p.get_sequence());
            inside(&buf[..len], p.payload());
        }
    };
}
acc_echo!(c04_acc_icmpv4_echo_request, icmpv4::echo_request::EchoRequestPacket<'_>);
acc_echo!(c04_acc_icmpv4_echo_reply, icmpv4::echo_reply::EchoReplyPacket<'_>);
acc_echo!(c04_acc_icmpv6_echo_request, icmpv6::echo_request::EchoRequestPacket<'_>);
acc_echo!(c04_acc_icmpv6_echo_reply, icmpv6::echo_reply::EchoReplyPacket<'_>);

/// Time Exceeded / Destination Unreachable: payload(), payload_raw(), extension() for EVERY
/// RFC 4884 length byte 0..=255 against every buffer length (quick: N = 64 cannot reach the
/// 128-octet extension branch; the thorough tier uses N = 160; the branch structure for all
/// lengths up to 1024 is covered content-independently by c14_split_all_lengths).
macro_rules! acc_err {
    ($name:ident, $view:ty, $mtu:expr) => {
        #[kani::proof]
        #[kani::unwind(6)]
        fn $name() {
            let buf: [u8; N] = kani::any();
            let len = any_len(8);
            let p = <$view>::new_view(&buf[..len]).unwrap();
            let _ = (p.get_icmp_type(), p.get_icmp_code(), p.get_checksum(), p.get_length());
            inside(&buf[..len], p.payload());
            inside(&buf[..len], p.payload_raw());
            if let Some(e) = p.extension() {
                inside(&buf[..len], e);
            }
            kani::cover!(p.get_length() >= 64, "length byte whose scaling exceeds u8");
            kani::cover!(p.get_length() == 255, "maximum length byte");
            kani::cover!(N < 144 || p.extension().is_some(), "extension branch live (thorough tier)");
        }
    };
}
acc_err!(c04_acc_icmpv4_time_exceeded, icmpv4::time_exceeded::TimeExceededPacket<'_>, false);
acc_err!(c04_acc_icmpv4_dest_unreach, icmpv4::destination_unreachable::DestinationUnreachablePacket<'_>, true);
acc_err!(c04_acc_icmpv6_time_exceeded, icmpv6::time_exceeded::TimeExceededPacket<'_>, false);
acc_err!(c04_acc_icmpv6_dest_unreach, icmpv6::destination_unreachable::DestinationUnreachablePacket<'_>, true);

#[kani::proof]
#[kani::unwind(6)]
fn c04_acc_dest_unreach_mtu() {
    let buf: [u8; N] = kani::any();
    let len = any_len(8);
    let p = icmpv4::destination_unreachable::DestinationUnreachablePacket::new_view(&buf[..len]).unwrap();
    let _ = p.get_next_hop_mtu();
    let q = icmpv6::destination_unreachable::DestinationUnreachablePacket::new_view(&buf[..len]).unwrap();
    let _ = q.get_next_hop_mtu();
}

#[kani::proof]
#[kani::unwind(6)]
fn c04_acc_ext_header() {
    let buf: [u8; N] = kani::any();
    let len = any_len(4);
    let p = ExtensionHeaderPacket::new_view(&buf[..len]).unwrap();
    let _ = (p.get_version(), p.get_checksum());
    inside(&buf[..len], p.packet());
}

/// Extension object accessors under the iterator's guarantee `4 <= length <= len`.
#[kani::proof]
#[kani::unwind(6)]
fn c04_acc_ext_object_wellformed() {
    let buf: [u8; N] = kani::any();
    let len = any_len(4);
    let p = ExtensionObjectPacket::new_view(&buf[..len]).unwrap();
    let l = usize::from(p.get_length());
    let _ = (p.get_class_num(), p.get_class_subtype());
    kani::assume(l >= 4 && l <= len);
    let pl = p.payload();
    assert!(pl.len() == l - 4);
    inside(&buf[..len], pl);
}

/// Extension object `payload()` called directly on an ARBITRARY buffer (the property's second
/// sentence: every accessor over an arbitrary buffer of at least the minimum header size).
#[kani::proof]
#[kani::unwind(6)]
fn c04_acc_ext_object_arbitrary() {
    let buf: [u8; N] = kani::any();
    let len = any_len(4);
    let p = ExtensionObjectPacket::new_view(&buf[..len]).unwrap();
    let pl = p.payload();
    inside(&buf[..len], pl);
    kani::cover!(usize::from(p.get_length()) < 4, "length below header");
    kani::cover!(usize::from(p.get_length()) > len, "length beyond buffer");
}

#[kani::proof]
#[kani::unwind(6)]
fn c04_acc_mpls_member() {
    let buf: [u8; N] = kani::any();
    let len = any_len(4);
    let p = MplsLabelStackMemberPacket::new_view(&buf[..len]).unwrap();
    let _ = (p.get_label(), p.get_exp(), p.get_bos(), p.get_ttl());
    assert!(p.get_label() < (1 << 20) && p.get_exp() < 8 && p.get_bos() < 2);
}

// ------------------------------------------------------------------ iterators terminate (H04c)
const IT: usize = 32;

/// ExtensionObjectIter over any <= 32-byte extension structure: terminates (unwinding assertion
/// with bound N/4 + 2), every yielded object lies inside the buffer and satisfies
/// `4 <= length <= remaining`, objects are consecutive and non-overlapping.
#[kani::proof]
#[kani::unwind(11)]
fn c04_iter_objects_terminate() {
    let buf: [u8; IT] = kani::any();
    let len: usize = kani::any();
    kani::assume(len >= 4 && len <= IT);
    let e = ExtensionsPacket::new_view(&buf[..len]).unwrap();
    inside(&buf[..len], e.header());
    assert!(e.header().len() == 4);
    let base = buf.as_ptr() as usize;
    let mut expect_off = 4usize;
    let mut n = 0usize;
    for obj in e.objects() {
        let off = obj.as_ptr() as usize - base;
        assert!(off == expect_off, "objects are consecutive");
        assert!(off + obj.len() == len, "yielded slice runs to the end of the structure");
        let o = ExtensionObjectPacket::new_view(obj).unwrap();
        let l = usize::from(o.get_length());
        assert!(l >= 4 && l <= obj.len(), "4 <= length <= remaining");
        let _ = o.payload();
        expect_off = off + l;
        n += 1;
    }
    assert!(n <= (IT - 4) / 4);
    kani::cover!(n == 3, "three objects");
    kani::cover!(n == 0 && len > 8, "malformed first object stops iteration");
}

#[kani::proof]
#[kani::unwind(11)]
fn c04_iter_mpls_terminate() {
    let buf: [u8; IT] = kani::any();
    let len: usize = kani::any();
    kani::assume(len >= 4 && len <= IT);
    let s = MplsLabelStackPacket::new_view(&buf[..len]).unwrap();
    let base = buf.as_ptr() as usize;
    let mut n = 0usize;
    let mut last_bos = 0u8;
    for m in s.members() {
        assert!(last_bos == 0, "nothing is yielded after the bottom-of-stack member");
        let off = m.as_ptr() as usize - base;
        assert!(off == n * 4 && off + 4 <= len);
        let mp = MplsLabelStackMemberPacket::new_view(m).unwrap();
        last_bos = mp.get_bos();
        n += 1;
    }
    assert!(n <= IT / 4);
    kani::cover!(n == 8, "full stack");
    kani::cover!(n == 1 && len >= 8, "bottom-of-stack ends iteration early");
}

/// Harness-side mutable statics to reset between native witness-search trials (none here).
#[allow(dead_code)]
fn verif_reset_statics() {}
