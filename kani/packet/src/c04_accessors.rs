// placeholder
