//! C13 — the codec's checksum functions equal the RFC 1071 one's-complement checksum over
//! (pseudo-header +) data with the checksum field taken as zero.
//!
//! Formulation (DESIGN 1.1): the harness computes `!fold(sum)` with a plain RFC 1071 word loop
//! over a copy of the data in which the checksum field is zeroed, and compares it with the codec's
//! result for symbolic content AND symbolic length; the separate one-variable lemma
//! `fold(s + !fold(s)) == 0xFFFF` turns that into "the datagram with the checksum inserted sums
//! to 0xFFFF".
use std::net::{Ipv4Addr, Ipv6Addr};
use trippy_packet::checksum::{
    icmp_ipv4_checksum, icmp_ipv6_checksum, ipv4_header_checksum, tcp_ipv4_checksum, udp_ipv4_checksum,
    udp_ipv6_checksum,
};

/// Buffer bound: 64 in the quick tier, 256 in the thorough tier (VERIF_THOROUGH set by check.py).
pub const N: usize = if option_env!("VERIF_THOROUGH").is_some() { 256 } else { 64 };

/// RFC 1071 end-around-carry fold.
pub fn fold(mut s: u64) -> u16 {
    let mut k = 0;
    while k < 4 {
        s = (s & 0xffff) + (s >> 16);
        k += 1;
    }
    s as u16
}

/// Reference: sum of big-endian 16-bit words of data[..len] (odd tail padded with zero), with the
/// 16-bit word at byte offset `ck_off` read as zero.
pub fn ref_sum(data: &[u8; N], len: usize, ck_off: usize) -> u64 {
    let mut s = 0u64;
    let mut i = 0;
    while i < N {
        if i < len {
            let hi = if i == ck_off { 0 } else { data[i] };
            let lo = if i + 1 < len { if i == ck_off { 0 } else { data[i + 1] } } else { 0 };
            s += (u64::from(hi) << 8) | u64::from(lo);
        }
        i += 2;
    }
    s
}

fn v4sum(a: Ipv4Addr) -> u64 {
    let o = a.octets();
    ((u64::from(o[0]) << 8) | u64::from(o[1])) + ((u64::from(o[2]) << 8) | u64::from(o[3]))
}

fn v6sum(a: Ipv6Addr) -> u64 {
    let o = a.octets();
    let mut s = 0u64;
    let mut i = 0;
    while i < 16 {
        s += (u64::from(o[i]) << 8) | u64::from(o[i + 1]);
        i += 2;
    }
    s
}

fn any_len(min: usize) -> usize {
    let len: usize = kani::any();
    kani::assume(len >= min && len <= N);
    len
}

/// Lemma: for every 32-bit partial sum s, inserting c = !fold(s) makes the total fold to 0xFFFF.
#[kani::proof]
#[kani::unwind(6)]
fn c13_fold_lemma() {
    let s: u32 = kani::any();
    let c = !fold(u64::from(s));
    assert!(fold(u64::from(s) + u64::from(c)) == 0xffff);
}

#[kani::proof]
#[kani::unwind(132)]
fn c13_icmp_ipv4() {
    let data: [u8; N] = kani::any();
    let len = any_len(8);
    let got = icmp_ipv4_checksum(&data[..len]);
    let want = !fold(ref_sum(&data, len, 2));
    assert!(got == want);
    kani::cover!(len % 2 == 1, "odd length");
    kani::cover!(len == N, "maximum length");
}

#[kani::proof]
#[kani::unwind(132)]
fn c13_ipv4_header() {
    let data: [u8; N] = kani::any();
    let len = any_len(20);
    kani::assume(len % 4 == 0 && len <= 60);
    let got = ipv4_header_checksum(&data[..len]);
    let want = !fold(ref_sum(&data, len, 10));
    assert!(got == want);
    kani::cover!(len == 60, "maximum header");
}

#[kani::proof]
#[kani::unwind(132)]
fn c13_udp_ipv4() {
    let data: [u8; N] = kani::any();
    let len = any_len(8);
    let src = Ipv4Addr::from(kani::any::<u32>());
    let dst = Ipv4Addr::from(kani::any::<u32>());
    let got = udp_ipv4_checksum(&data[..len], src, dst);
    let want = !fold(v4sum(src) + v4sum(dst) + 17 + len as u64 + ref_sum(&data, len, 6));
    assert!(got == want);
    kani::cover!(len % 2 == 1, "odd length");
    kani::cover!(len == N, "maximum length");
}

#[kani::proof]
#[kani::unwind(132)]
fn c13_tcp_ipv4() {
    let data: [u8; N] = kani::any();
    let len = any_len(20);
    let src = Ipv4Addr::from(kani::any::<u32>());
    let dst = Ipv4Addr::from(kani::any::<u32>());
    let got = tcp_ipv4_checksum(&data[..len], src, dst);
    let want = !fold(v4sum(src) + v4sum(dst) + 6 + len as u64 + ref_sum(&data, len, 16));
    assert!(got == want);
    kani::cover!(len % 2 == 1, "odd length");
}

#[kani::proof]
#[kani::unwind(132)]
fn c13_udp_ipv6() {
    let data: [u8; N] = kani::any();
    let len = any_len(8);
    let src = Ipv6Addr::from(kani::any::<u128>());
    let dst = Ipv6Addr::from(kani::any::<u128>());
    let got = udp_ipv6_checksum(&data[..len], src, dst);
    let want = !fold(v6sum(src) + v6sum(dst) + 17 + len as u64 + ref_sum(&data, len, 6));
    assert!(got == want);
    kani::cover!(len % 2 == 1, "odd length");
}

#[kani::proof]
#[kani::unwind(132)]
fn c13_icmp_ipv6() {
    let data: [u8; N] = kani::any();
    let len = any_len(8);
    let src = Ipv6Addr::from(kani::any::<u128>());
    let dst = Ipv6Addr::from(kani::any::<u128>());
    let got = icmp_ipv6_checksum(&data[..len], src, dst);
    let want = !fold(v6sum(src) + v6sum(dst) + 58 + len as u64 + ref_sum(&data, len, 2));
    assert!(got == want);
    kani::cover!(len % 2 == 1, "odd length");
}

/// The carry-maximising corner: all-0xFF content at every length (concrete content, symbolic length).
#[kani::proof]
#[kani::unwind(132)]
fn c13_all_ones_content() {
    let data = [0xffu8; N];
    let len = any_len(8);
    let src = Ipv4Addr::new(255, 255, 255, 255);
    let got = udp_ipv4_checksum(&data[..len], src, src);
    let want = !fold(v4sum(src) * 2 + 17 + len as u64 + ref_sum(&data, len, 6));
    assert!(got == want);
}

/// Harness-side mutable statics to reset between native witness-search trials (none here).
#[allow(dead_code)]
fn verif_reset_statics() {}
