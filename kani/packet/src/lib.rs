//! Kani proof harnesses over the real `trippy-packet` crate (public API only, no hooks).
#![allow(clippy::all, dead_code, unused_imports, unused_macros)]

#[cfg(kani)]
mod util;
#[cfg(kani)]
mod c12_fields;
#[cfg(kani)]
mod c12_ctor;
#[cfg(kani)]
mod c04_accessors;
#[cfg(kani)]
mod c13_checksum;
#[cfg(kani)]
mod c14_ext;
