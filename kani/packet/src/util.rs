//! Shared oracle helpers.

/// The RFC bit-range oracle.
///
/// Bits are numbered as in the RFC header diagrams: bit 0 is the most significant bit of
/// byte 0.  The field occupies bits `[off, off + width)` and carries `val` truncated to
/// `width` bits, most significant bit first (network order).  Every other bit must keep its
/// value from `before`.
pub fn expect_field<const N: usize>(
    before: &[u8; N],
    after: &[u8; N],
    off: usize,
    width: usize,
    val: u128,
) {
    let mut i = 0;
    while i < N {
        let mut mask = 0u8;
        let mut bits = 0u8;
        let mut b = 0;
        while b < 8 {
            let p = i * 8 + b;
            if p >= off && p < off + width {
                let k = width - 1 - (p - off); // bit index into val (0 = lsb)
                mask |= 0x80 >> b;
                if (val >> k) & 1 == 1 {
                    bits |= 0x80 >> b;
                }
            }
            b += 1;
        }
        let want = (before[i] & !mask) | bits;
        assert!(after[i] == want, "byte differs from RFC bit-range oracle");
        i += 1;
    }
}

pub const fn low_mask(width: usize) -> u128 {
    if width >= 128 {
        u128::MAX
    } else {
        (1u128 << width) - 1
    }
}
