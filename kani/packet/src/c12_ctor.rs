//! C12 — construction succeeds exactly for buffers of at least the minimum header size,
//! and a read-only view never modifies the buffer.
use std::net::{Ipv4Addr, Ipv6Addr};
use trippy_packet::icmp_extension::extension_header::ExtensionHeaderPacket;
use trippy_packet::icmp_extension::extension_object::ExtensionObjectPacket;
use trippy_packet::icmp_extension::extension_structure::ExtensionsPacket;
use trippy_packet::icmp_extension::mpls_label_stack::MplsLabelStackPacket;
use trippy_packet::icmp_extension::mpls_label_stack_member::MplsLabelStackMemberPacket;
use trippy_packet::ipv4::Ipv4Packet;
use trippy_packet::ipv6::Ipv6Packet;
use trippy_packet::tcp::TcpPacket;
use trippy_packet::udp::UdpPacket;
use trippy_packet::{icmpv4, icmpv6};

macro_rules! ctor {
    ($name:ident, $view:ty, $min:expr) => {
        #[kani::proof]
        #[kani::unwind(52)]
        fn $name() {
            const N: usize = $min + 8;
            assert!(<$view>::minimum_packet_size() == $min, "RFC minimum header size");
            let mut buf: [u8; N] = kani::any();
            let len: usize = kani::any();
            kani::assume(len <= N);
            let ok_view = <$view>::new_view(&buf[..len]).is_ok();
            assert!(ok_view == (len >= $min), "new_view succeeds iff len >= minimum");
            let ok_new = <$view>::new(&mut buf[..len]).is_ok();
            assert!(ok_new == (len >= $min), "new succeeds iff len >= minimum");
            kani::cover!(ok_new, "accepted");
            kani::cover!(!ok_new, "rejected");
        }
    };
}

ctor!(c12_ctor_ipv4, Ipv4Packet<'_>, 20);
ctor!(c12_ctor_ipv6, Ipv6Packet<'_>, 40);
ctor!(c12_ctor_udp, UdpPacket<'_>, 8);
ctor!(c12_ctor_tcp, TcpPacket<'_>, 20);
ctor!(c12_ctor_icmpv4, icmpv4::IcmpPacket<'_>, 8);
ctor!(c12_ctor_icmpv4_echo_request, icmpv4::echo_request::EchoRequestPacket<'_>, 8);
ctor!(c12_ctor_icmpv4_echo_reply, icmpv4::echo_reply::EchoReplyPacket<'_>, 8);
ctor!(c12_ctor_icmpv4_time_exceeded, icmpv4::time_exceeded::TimeExceededPacket<'_>, 8);
ctor!(c12_ctor_icmpv4_dest_unreach, icmpv4::destination_unreachable::DestinationUnreachablePacket<'_>, 8);
ctor!(c12_ctor_icmpv6, icmpv6::IcmpPacket<'_>, 8);
ctor!(c12_ctor_icmpv6_echo_request, icmpv6::echo_request::EchoRequestPacket<'_>, 8);
ctor!(c12_ctor_icmpv6_echo_reply, icmpv6::echo_reply::EchoReplyPacket<'_>, 8);
ctor!(c12_ctor_icmpv6_time_exceeded, icmpv6::time_exceeded::TimeExceededPacket<'_>, 8);
ctor!(c12_ctor_icmpv6_dest_unreach, icmpv6::destination_unreachable::DestinationUnreachablePacket<'_>, 8);
ctor!(c12_ctor_extensions, ExtensionsPacket<'_>, 4);
ctor!(c12_ctor_ext_header, ExtensionHeaderPacket<'_>, 4);
ctor!(c12_ctor_ext_object, ExtensionObjectPacket<'_>, 4);
ctor!(c12_ctor_mpls_stack, MplsLabelStackPacket<'_>, 4);
ctor!(c12_ctor_mpls_member, MplsLabelStackMemberPacket<'_>, 4);

/// set_payload writes exactly the payload region (after the header, honouring IHL / data offset
/// where the view defines it) and nothing else; payload() reads it back.
macro_rules! payload_rt {
    ($name:ident, $view:ty, $min:expr) => {
        #[kani::proof]
        #[kani::unwind(60)]
        fn $name() {
            const N: usize = $min + 6;
            let before: [u8; N] = kani::any();
            let mut buf = before;
            let data: [u8; 6] = kani::any();
            let dl: usize = kani::any();
            kani::assume(dl <= 6);
            {
                let mut p = <$view>::new(&mut buf).unwrap();
                p.set_payload(&data[..dl]);
            }
            let mut i = 0;
            while i < N {
                if i >= $min && i < $min + dl {
                    assert!(buf[i] == data[i - $min], "payload byte written in place");
                } else {
                    assert!(buf[i] == before[i], "byte outside payload untouched");
                }
                i += 1;
            }
        }
    };
}
payload_rt!(c12_payload_udp, UdpPacket<'_>, 8);
payload_rt!(c12_payload_icmpv4_echo_request, icmpv4::echo_request::EchoRequestPacket<'_>, 8);
payload_rt!(c12_payload_icmpv4_echo_reply, icmpv4::echo_reply::EchoReplyPacket<'_>, 8);
payload_rt!(c12_payload_icmpv4_time_exceeded, icmpv4::time_exceeded::TimeExceededPacket<'_>, 8);
payload_rt!(c12_payload_icmpv4_dest_unreach, icmpv4::destination_unreachable::DestinationUnreachablePacket<'_>, 8);
payload_rt!(c12_payload_icmpv6_echo_request, icmpv6::echo_request::EchoRequestPacket<'_>, 8);
payload_rt!(c12_payload_icmpv6_echo_reply, icmpv6::echo_reply::EchoReplyPacket<'_>, 8);
payload_rt!(c12_payload_icmpv6_time_exceeded, icmpv6::time_exceeded::TimeExceededPacket<'_>, 8);
payload_rt!(c12_payload_icmpv6_dest_unreach, icmpv6::destination_unreachable::DestinationUnreachablePacket<'_>, 8);
payload_rt!(c12_payload_ext_object, ExtensionObjectPacket<'_>, 4);

/// IPv4: payload starts after IHL*4 (>= 20) bytes, for every IHL whose header fits the buffer.
#[kani::proof]
#[kani::unwind(72)]
fn c12_payload_ipv4_ihl() {
    const N: usize = 68;
    let before: [u8; N] = kani::any();
    let mut buf = before;
    let ihl = before[0] & 0xf;
    let start = if ihl < 5 { 20 } else { usize::from(ihl) * 4 };
    let data: [u8; 4] = kani::any();
    kani::assume(start + 4 <= N);
    {
        let mut p = Ipv4Packet::new(&mut buf).unwrap();
        p.set_payload(&data);
        let pl = p.payload();
        assert!(pl.len() == N - start);
        assert!(pl[0] == data[0] && pl[3] == data[3]);
    }
    let mut i = 0;
    while i < N {
        if i >= start && i < start + 4 {
            assert!(buf[i] == data[i - start]);
        } else {
            assert!(buf[i] == before[i]);
        }
        i += 1;
    }
    kani::cover!(ihl == 15, "maximum IHL");
    kani::cover!(ihl < 5, "IHL below the minimum is treated as 5");
}

/// TCP: payload starts after data-offset*4 (>= 20) bytes.
#[kani::proof]
#[kani::unwind(72)]
fn c12_payload_tcp_data_offset() {
    const N: usize = 68;
    let before: [u8; N] = kani::any();
    let mut buf = before;
    let doff = before[12] >> 4;
    let start = if doff <= 5 { 20 } else { usize::from(doff) * 4 };
    let data: [u8; 4] = kani::any();
    kani::assume(start + 4 <= N);
    {
        let mut p = TcpPacket::new(&mut buf).unwrap();
        p.set_payload(&data);
        let pl = p.payload();
        assert!(pl.len() == N - start);
        assert!(pl[0] == data[0] && pl[3] == data[3]);
    }
    let mut i = 0;
    while i < N {
        if i >= start && i < start + 4 {
            assert!(buf[i] == data[i - start]);
        } else {
            assert!(buf[i] == before[i]);
        }
        i += 1;
    }
    kani::cover!(doff == 15, "maximum data offset");
}

/// IPv6: payload is the bytes after the fixed 40-byte header, bounded by the payload-length field.
#[kani::proof]
#[kani::unwind(60)]
fn c12_payload_ipv6() {
    const N: usize = 48;
    let before: [u8; N] = kani::any();
    let mut buf = before;
    let plen = u16::from_be_bytes([before[4], before[5]]);
    let data: [u8; 4] = kani::any();
    kani::assume(plen >= 4); // documented precondition of set_payload (debug_assert)
    {
        let mut p = Ipv6Packet::new(&mut buf).unwrap();
        p.set_payload(&data);
        let pl = p.payload();
        let want = if usize::from(plen) < 8 { usize::from(plen) } else { 8 };
        assert!(pl.len() == want);
        assert!(pl[0] == data[0] && pl[3] == data[3]);
    }
    let mut i = 0;
    while i < N {
        if i >= 40 && i < 44 {
            assert!(buf[i] == data[i - 40]);
        } else {
            assert!(buf[i] == before[i]);
        }
        i += 1;
    }
}

/// Harness-side mutable statics to reset between native witness-search trials (none here).
#[allow(dead_code)]
fn verif_reset_statics() {}
