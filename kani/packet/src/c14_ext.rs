//! C14 (codec level) — RFC 4884 splitting for every length, faithful object / MPLS decoding.
use trippy_packet::icmp_extension::extension_header::ExtensionHeaderPacket;
use trippy_packet::icmp_extension::extension_object::{ClassNum, ClassSubType, ExtensionObjectPacket};
use trippy_packet::icmp_extension::extension_splitter::split;
use trippy_packet::icmp_extension::extension_structure::ExtensionsPacket;
use trippy_packet::icmp_extension::mpls_label_stack::MplsLabelStackPacket;
use trippy_packet::icmp_extension::mpls_label_stack_member::MplsLabelStackMemberPacket;
use trippy_packet::{icmpv4, icmpv6};

const BODY: usize = 1024;

/// Structural post-conditions of a split of `body` (all by address, content-independent).
fn check_split(length: usize, body: &[u8], payload: &[u8], ext: Option<&[u8]>) {
    let b0 = body.as_ptr() as usize;
    let bl = body.len();
    // payload is a prefix of the ICMP body
    assert!(payload.as_ptr() as usize == b0 && payload.len() <= bl, "payload is a prefix of the body");
    match ext {
        None => assert!(payload.len() == bl, "no extension: whole body is the original datagram"),
        Some(e) => {
            let e0 = e.as_ptr() as usize;
            assert!(e0 + e.len() == b0 + bl, "extension is a suffix of the body");
            assert!(e.len() >= 4, "extension holds at least the 4-byte header");
            assert!(b0 + payload.len() <= e0, "payload and extension do not overlap");
            assert!(bl > 128, "extensions need more than 128 octets of body");
            if length > 128 {
                assert!(payload.len() == length && e0 - b0 == length, "compliant: split exactly at length");
            } else if length > 0 {
                assert!(payload.len() == length && e0 - b0 == 128, "compliant short: trimmed to length, ext at 128");
            } else {
                assert!(payload.len() == 128 && e0 - b0 == 128, "legacy: 128-octet convention");
            }
        }
    }
    // completeness: when is an extension reported
    let start = if length > 128 { length } else { 128 };
    let want_ext = length <= bl && bl > 128 && bl >= start + 4;
    assert!(ext.is_some() == want_ext, "extension present iff the RFC 4884 layout leaves room for a header");
}

/// `split` for EVERY length 0..=2040 (255 * 8) and EVERY body length 0..=1024.
#[kani::proof]
#[kani::unwind(4)]
fn c14_split_all_lengths() {
    let body = [0u8; BODY];
    let bl: usize = kani::any();
    kani::assume(bl <= BODY);
    let length: usize = kani::any();
    kani::assume(length <= 2040);
    let (payload, ext) = split(length, &body[..bl]);
    check_split(length, &body[..bl], payload, ext);
    kani::cover!(ext.is_some() && length > 128, "compliant long");
    kani::cover!(ext.is_some() && length > 0 && length <= 128, "compliant short");
    kani::cover!(ext.is_some() && length == 0, "legacy");
    kani::cover!(ext.is_none() && bl > 128 && length <= bl, "no room for header");
}

/// The four real views: every RFC 4884 length byte 0..=255 x every message length 8..=1032.
macro_rules! split_view {
    ($name:ident, $view:ty, $scale:expr, $lenoff:expr) => {
        #[kani::proof]
        #[kani::unwind(4)]
        fn $name() {
            let mut buf = [0u8; BODY + 8];
            let lb: u8 = kani::any();
            buf[$lenoff] = lb;
            let len: usize = kani::any();
            kani::assume(len >= 8 && len <= BODY + 8);
            let p = <$view>::new_view(&buf[..len]).unwrap();
            assert!(p.get_length() == lb);
            let body = &buf[8..len];
            let length = usize::from(lb) * $scale; // RFC 4884: 32-bit words (ICMPv4) / 64-bit words (ICMPv6)
            check_split(length, body, p.payload(), p.extension());
            assert!(p.payload_raw().as_ptr() == body.as_ptr() && p.payload_raw().len() == body.len());
            kani::cover!(p.extension().is_some() && length > 128, "compliant long");
            kani::cover!(p.extension().is_some() && lb == 0, "legacy");
            kani::cover!(usize::from(lb) * $scale > 255, "scaled length exceeds u8");
        }
    };
}
split_view!(c14_split_view_icmpv4_time_exceeded, icmpv4::time_exceeded::TimeExceededPacket<'_>, 4, 5);
split_view!(c14_split_view_icmpv4_dest_unreach, icmpv4::destination_unreachable::DestinationUnreachablePacket<'_>, 4, 5);
split_view!(c14_split_view_icmpv6_time_exceeded, icmpv6::time_exceeded::TimeExceededPacket<'_>, 8, 4);
split_view!(c14_split_view_icmpv6_dest_unreach, icmpv6::destination_unreachable::DestinationUnreachablePacket<'_>, 8, 4);

/// The original datagram is recovered unchanged: symbolic 136+12-byte message, compliant length 34
/// words (136 bytes) — payload()'s bytes equal the bytes that were put in.
#[kani::proof]
#[kani::unwind(150)]
fn c14_original_datagram_recovered() {
    const DG: usize = 136;
    let dg: [u8; DG] = kani::any();
    let ext: [u8; 12] = kani::any();
    let mut buf = [0u8; 8 + DG + 12];
    {
        let mut p = icmpv4::time_exceeded::TimeExceededPacket::new(&mut buf).unwrap();
        p.set_icmp_type(icmpv4::IcmpType::TimeExceeded);
        p.set_length((DG / 4) as u8);
        let mut body = [0u8; DG + 12];
        body[..DG].copy_from_slice(&dg);
        body[DG..].copy_from_slice(&ext);
        p.set_payload(&body);
    }
    let p = icmpv4::time_exceeded::TimeExceededPacket::new_view(&buf).unwrap();
    let pl = p.payload();
    assert!(pl.len() == DG);
    let mut i = 0;
    while i < DG {
        assert!(pl[i] == dg[i]);
        i += 1;
    }
    let e = p.extension().unwrap();
    assert!(e.len() == 12);
    let mut j = 0;
    while j < 12 {
        assert!(e[j] == ext[j]);
        j += 1;
    }
}

/// Faithful decoding: the harness ENCODES (with the crate's own setters) an extension structure
/// holding an MPLS object with m in 0..=2 label-stack members followed by an opaque object with
/// k in 0..=4 payload bytes, all fields symbolic; decoding yields exactly those objects, labels,
/// EXP / S / TTL values and bytes, in order, and nothing else.
#[kani::proof]
#[kani::unwind(12)]
fn c14_objects_faithful() {
    const CAP: usize = 4 + (4 + 8) + (4 + 4);
    let mut buf = [0u8; CAP];
    let m: usize = kani::any();
    let k: usize = kani::any();
    kani::assume(m >= 1 && m <= 2 && k <= 4);
    let labels: [u32; 2] = kani::any();
    let exps: [u8; 2] = kani::any();
    let ttls: [u8; 2] = kani::any();
    kani::assume(labels[0] < (1 << 20) && labels[1] < (1 << 20) && exps[0] < 8 && exps[1] < 8);
    let class2: u8 = kani::any();
    let sub2: u8 = kani::any();
    let opaque: [u8; 4] = kani::any();
    let l1 = 4 + 4 * m;
    let l2 = 4 + k;
    let total = 4 + l1 + l2;
    {
        let mut h = ExtensionHeaderPacket::new(&mut buf[..4]).unwrap();
        h.set_version(2);
    }
    {
        let mut o = ExtensionObjectPacket::new(&mut buf[4..4 + l1]).unwrap();
        o.set_length(l1 as u16);
        o.set_class_num(ClassNum::MultiProtocolLabelSwitchingLabelStack);
        o.set_class_subtype(ClassSubType(1));
    }
    let mut i = 0;
    while i < m {
        let off = 8 + 4 * i;
        let mut mem = MplsLabelStackMemberPacket::new(&mut buf[off..off + 4]).unwrap();
        mem.set_label(labels[i]);
        mem.set_exp(exps[i]);
        mem.set_bos(if i + 1 == m { 1 } else { 0 });
        mem.set_ttl(ttls[i]);
        i += 1;
    }
    {
        let mut o = ExtensionObjectPacket::new(&mut buf[4 + l1..total]).unwrap();
        o.set_length(l2 as u16);
        o.set_class_num(ClassNum::from(class2));
        o.set_class_subtype(ClassSubType(sub2));
        o.set_payload(&opaque[..k]);
    }
    // ---- decode
    let e = ExtensionsPacket::new_view(&buf[..total]).unwrap();
    let hdr = ExtensionHeaderPacket::new_view(e.header()).unwrap();
    assert!(hdr.get_version() == 2);
    let mut it = e.objects();
    let o1 = ExtensionObjectPacket::new_view(it.next().unwrap()).unwrap();
    assert!(usize::from(o1.get_length()) == l1);
    assert!(o1.get_class_num() == ClassNum::MultiProtocolLabelSwitchingLabelStack);
    assert!(o1.get_class_subtype() == ClassSubType(1));
    assert!(o1.payload().len() == 4 * m);
    let stack = MplsLabelStackPacket::new_view(o1.payload()).unwrap();
    let mut mi = stack.members();
    let mut j = 0;
    while j < m {
        let mem = MplsLabelStackMemberPacket::new_view(mi.next().unwrap()).unwrap();
        assert!(mem.get_label() == labels[j] && mem.get_exp() == exps[j] && mem.get_ttl() == ttls[j]);
        assert!(mem.get_bos() == if j + 1 == m { 1 } else { 0 });
        j += 1;
    }
    assert!(mi.next().is_none(), "no member is invented");
    let o2 = ExtensionObjectPacket::new_view(it.next().unwrap()).unwrap();
    assert!(usize::from(o2.get_length()) == l2);
    assert!(o2.get_class_num().id() == class2 && o2.get_class_subtype().0 == sub2);
    let pl = o2.payload();
    assert!(pl.len() == k);
    let mut q = 0;
    while q < k {
        assert!(pl[q] == opaque[q]);
        q += 1;
    }
    assert!(it.next().is_none(), "no object is invented");
    kani::cover!(m == 2 && k == 4, "largest shape");
    kani::cover!(k == 0, "empty opaque object");
}

/// Harness-side mutable statics to reset between native witness-search trials (none here).
#[allow(dead_code)]
fn verif_reset_statics() {}
