//! Verification shim for the `tracing` crate (Kani ICEs on the real one).
//! Equivalent to running without a subscriber: spans do nothing, events expand to `()`.
//! Argument expressions of events are NOT evaluated (outside the claim).
pub use tracing_attrs_shim::instrument;

#[macro_export]
macro_rules! trace { ($($t:tt)*) => { () }; }
#[macro_export]
macro_rules! debug { ($($t:tt)*) => { () }; }
#[macro_export]
macro_rules! info { ($($t:tt)*) => { () }; }
#[macro_export]
macro_rules! warn { ($($t:tt)*) => { () }; }
#[macro_export]
macro_rules! error { ($($t:tt)*) => { () }; }
