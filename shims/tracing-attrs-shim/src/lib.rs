//! Verification shim: `#[instrument]` returns the item unchanged.
use proc_macro::TokenStream;

#[proc_macro_attribute]
pub fn instrument(_args: TokenStream, item: TokenStream) -> TokenStream {
    item
}
