#!/usr/bin/env python3
"""Driver for the solver-based (Kani/CBMC) checks of trippy.  See DESIGN.md section 1.5.

usage: check.py <PROPERTY> [--tier quick|thorough] [--only SUBSTR] [--keep] [--jobs N]
       check.py <PROPERTY> --replay <path>
       check.py --list

exit 0: every obligation of the property was discharged by the solver on /repo's working tree
        (known findings listed in known_findings.json are printed as KNOWN-FINDING lines)
exit 1: a counterexample was found and reproduced natively: "VIOLATION property=<id> replay=<path>"
exit 2: inconclusive (timeout, out of memory, build error, vacuous harness, non-reproducing cex)
"""
import argparse
import json
import os
import re
import shutil
import signal
import subprocess
import sys
import time
from concurrent.futures import ThreadPoolExecutor

VERIF = os.path.dirname(os.path.abspath(__file__))
REPO = os.environ.get("TRIPPY_REPO", "/repo")
sys.path.insert(0, os.path.join(VERIF, "harness"))
import table  # noqa: E402

KANI_TOOLCHAIN_HINT = "kani 0.68.0 / CBMC 6.11.0 / CaDiCaL"


def log(*a):
    print(*a, file=sys.stderr, flush=True)


# --------------------------------------------------------------------------- scratch copy


def locked_version(lock_text, name):
    m = re.search(r'name = "%s"\nversion = "([^"]+)"' % re.escape(name), lock_text)
    return m.group(1) if m else None


def prepare_scratch(scratch):
    """Copy /repo's working tree (not target/, not .git) and the harness sources to a scratch dir."""
    os.makedirs(scratch, exist_ok=True)
    repo_dst = os.path.join(scratch, "repo")
    subprocess.run(
        ["rsync", "-a", "--delete", "--exclude", "/target", "--exclude", "/.git", "--exclude", "/assets",
         "--exclude", "/docs", REPO + "/", repo_dst + "/"], check=True)
    lock = open(os.path.join(repo_dst, "Cargo.lock")).read()
    # shims
    shims = os.path.join(scratch, "shims")
    shutil.copytree(os.path.join(VERIF, "shims"), shims, dirs_exist_ok=True)
    ver = locked_version(lock, "tracing") or "0.1.41"
    p = os.path.join(shims, "tracing", "Cargo.toml")
    s = open(p).read()
    s = re.sub(r'(?m)^version = "[^"]+"', 'version = "%s"' % ver, s, count=1)
    open(p, "w").write(s)
    # harness sources for trippy-core (included through the cfg(kani) hooks)
    hdir = os.path.join(scratch, "harness_core")
    shutil.copytree(os.path.join(VERIF, "harness", "core"), hdir, dirs_exist_ok=True)
    os.makedirs(os.path.join(repo_dst, ".cargo"), exist_ok=True)
    open(os.path.join(repo_dst, ".cargo", "config.toml"), "w").write(
        '[net]\noffline = true\n\n[patch.crates-io]\ntracing = { path = "%s/tracing" }\n' % shims)
    # external harness crate for trippy-packet
    pk = os.path.join(scratch, "packet")
    shutil.copytree(os.path.join(VERIF, "kani", "packet"), pk, dirs_exist_ok=True,
                    ignore=shutil.ignore_patterns("target", "Cargo.lock"))
    s = open(os.path.join(pk, "Cargo.toml")).read()
    s = s.replace('path = "/repo/crates/trippy-packet"', 'path = "%s/crates/trippy-packet"' % repo_dst)
    open(os.path.join(pk, "Cargo.toml"), "w").write(s)
    shutil.copy(os.path.join(repo_dst, "Cargo.lock"), os.path.join(pk, "Cargo.lock"))
    os.makedirs(os.path.join(pk, ".cargo"), exist_ok=True)
    open(os.path.join(pk, ".cargo", "config.toml"), "w").write('[net]\noffline = true\n')
    return {"repo": repo_dst, "harness_core": hdir, "packet": pk, "root": scratch}


# --------------------------------------------------------------------------- running kani


def kani_cmd(group, paths, target_dir, export_json, extra=()):
    cmd = ["cargo", "kani"]
    if group["crate"] == "core":
        cmd += ["-p", "trippy-core"]
    cmd += ["--target-dir", target_dir, "--output-format", "terse", "-j", str(group.get("jobs", 8)),
            "-Z", "unstable-options", "--export-json", export_json,
            "--harness-timeout", "%ds" % group.get("timeout_s", 300)]
    if group.get("stubbing"):
        cmd += ["-Z", "stubbing"]
    if group.get("exact"):
        cmd += ["--exact"]
    for h in group["harnesses"]:
        cmd += ["--harness", h]
    cmd += list(extra)
    cbmc_args = list(group.get("cbmc_args", []))
    if cbmc_args:
        cmd += ["--cbmc-args"] + cbmc_args  # must be last
    return cmd


def run_group(group, paths, tier):
    """Run one `cargo kani` invocation; returns dict with per-harness results."""
    gid = group["id"]
    tdir = os.path.join(paths["root"], "target-" + re.sub(r"[^A-Za-z0-9]+", "_", gid))
    export = os.path.join(paths["root"], "out-" + re.sub(r"[^A-Za-z0-9]+", "_", gid) + ".json")
    logf = os.path.join(paths["root"], "log-" + re.sub(r"[^A-Za-z0-9]+", "_", gid) + ".txt")
    cwd = paths["repo"] if group["crate"] == "core" else paths["packet"]
    env = dict(os.environ)
    env["CARGO_NET_OFFLINE"] = "true"
    env["TRIPPY_VERIF_HARNESS"] = paths["harness_core"]
    env.pop("RUSTUP_TOOLCHAIN", None)
    env.pop("VERIF_THOROUGH", None)
    if tier == "thorough":
        # deeper bounds inside the harnesses (buffer sizes, symbolic payload pattern) and more room
        env["VERIF_THOROUGH"] = "1"
        group = dict(group)
        group["timeout_s"] = int(group.get("timeout_s", 300) * (1 if group.get("best_effort") else 3))
        group["mem_gb"] = min(40, group.get("mem_gb", 12) * 1.5)
    env.update(group.get("env", {}))
    cmd = kani_cmd(group, paths, tdir, export)
    mem_kb = int(group.get("mem_gb", 12) * 1024 * 1024)
    wall_cap = group.get("wall_s", max(900, group.get("timeout_s", 300) * 3))
    shell = "ulimit -v %d; exec %s" % (mem_kb, " ".join("'%s'" % c.replace("'", "'\\''") for c in cmd))
    t0 = time.time()
    with open(logf, "w") as lf:
        proc = subprocess.Popen(["bash", "-c", shell], cwd=cwd, env=env, stdout=lf, stderr=subprocess.STDOUT,
                                start_new_session=True)
        try:
            rc = proc.wait(timeout=wall_cap)
            timed_out = False
        except subprocess.TimeoutExpired:
            os.killpg(proc.pid, signal.SIGKILL)
            proc.wait()
            rc, timed_out = -9, True
    wall = time.time() - t0
    out = open(logf, errors="replace").read()
    res = {"group": gid, "rc": rc, "wall_s": wall, "timed_out": timed_out, "log": logf, "harnesses": {},
           "cmd": " ".join(cmd)}
    data = None
    if os.path.exists(export):
        try:
            data = json.load(open(export))
        except Exception as e:  # noqa: BLE001
            res["json_error"] = str(e)
    if data is None:
        res["build_failed"] = True
        res["tail"] = out[-3000:]
        return res
    stats = {c["harness_id"]: (c.get("cbmc_stats") or {}) for c in data.get("cbmc", [])}
    props = {p["harness_id"]: (p.get("property_details") or {}) for p in data.get("property_details", [])}
    errs = {e["harness_id"]: e for e in data.get("error_details", [])}
    # per-harness text blocks of the log (for OOM / timeout classification)
    for r in data.get("verification_results", {}).get("results", []):
        hid = r["harness_id"]
        pd = props.get(hid, {})
        failed = [c for c in r.get("checks", []) if c.get("status") in ("Failure", "FAILURE")]
        covers = [c for c in r.get("checks", []) if c.get("category") == "cover" or c.get("property_class") == "cover"]
        undetermined = [c for c in r.get("checks", []) if c.get("status") in ("Undetermined", "UNDETERMINED")]
        h = {
            "status": r.get("status"),
            "duration_ms": r.get("duration_ms"),
            "failed_checks": [{"description": c.get("description"), "function": c.get("function"),
                               "category": c.get("category"),
                               "location": "%s:%s" % (os.path.basename(str(c.get("location", {}).get("file"))),
                                                      c.get("location", {}).get("line"))} for c in failed],
            "n_checks": pd.get("total_properties", len(r.get("checks", []))),
            "n_failed": pd.get("failed", len(failed)),
            "n_undetermined": pd.get("undetermined", len(undetermined)),
            "n_unreachable": pd.get("unreachable", 0),
            "covers_satisfied": pd.get("satisfied", 0),
            "covers_unsat": pd.get("unsatisfiable", 0),
            "cover_details": [{"description": c.get("description"), "status": c.get("status")} for c in covers],
            "solver_s": (stats.get(hid) or {}).get("runtime_solver_s"),
            "symex_s": (stats.get(hid) or {}).get("runtime_symex_s"),
            "error": errs.get(hid, {}),
        }
        res["harnesses"][hid] = h
    return res


UNWIND_PAT = re.compile(r"unwinding assertion", re.I)
UNSUPPORTED_PAT = re.compile(r"is not currently supported by Kani|unsupported construct", re.I)


def classify(h):
    """-> ('pass'|'fail'|'inconclusive', reason)"""
    st = (h.get("status") or "").lower()
    err = h.get("error", {})
    etype = str(err.get("error_type", "")).lower()
    estat = str(err.get("exit_status", "")).lower()
    if st == "success":
        if h["n_undetermined"]:
            return "inconclusive", "undetermined checks"
        if h["covers_unsat"]:
            return "inconclusive", "vacuity: %d cover witness(es) unsatisfiable" % h["covers_unsat"]
        return "pass", ""
    # failure: separate genuine property failures from resource / modelling failures
    fc = h.get("failed_checks", [])
    if not fc:
        return "inconclusive", "no failed check reported (%s %s %s)" % (st, etype, estat)
    if any(UNWIND_PAT.search(str(c["description"])) for c in fc):
        return "inconclusive", "unwinding assertion failed (bound too small)"
    if any(UNSUPPORTED_PAT.search(str(c["description"])) for c in fc):
        return "inconclusive", "unsupported construct reachable: " + str(fc[0]["description"])[:120]
    if "timeout" in etype or "timeout" in estat or "out_of_memory" in etype or "oom" in estat:
        return "inconclusive", "resource limit (%s %s)" % (etype, estat)
    return "fail", "; ".join(sorted({"%s @%s" % (str(c["description"])[:100], c["location"]) for c in fc}))[:600]


# --------------------------------------------------------------------------- replay


def playback(group, paths, harness, scratch_tag="pb"):
    """Re-run one failing harness with concrete playback and execute the generated test natively
    (dev profile = what Kani models, and release-like profile).  Returns dict."""
    tdir = os.path.join(paths["root"], "target-" + scratch_tag)
    cwd = paths["repo"] if group["crate"] == "core" else paths["packet"]
    env = dict(os.environ)
    env["CARGO_NET_OFFLINE"] = "true"
    env["TRIPPY_VERIF_HARNESS"] = paths["harness_core"]
    env.pop("VERIF_THOROUGH", None)
    env.update(group.get("env", {}))
    g1 = dict(group)
    g1["harnesses"] = [harness]
    g1["exact"] = True
    g1["jobs"] = 1
    export = os.path.join(paths["root"], "out-" + scratch_tag + ".json")
    cmd = ["cargo", "kani"] + (["-p", "trippy-core"] if group["crate"] == "core" else [])
    # --no-slice-formula: with slicing CBMC may drop the assignments to the nondeterministic inputs from the
    # trace, and Kani then "did not generate unit tests" (seen for c11_v4_dispatch_tcp, c10_flow_state_*)
    cmd += ["--target-dir", tdir, "--harness", harness, "--exact", "-Z", "concrete-playback",
            "--concrete-playback=print", "--no-slice-formula", "-Z", "unstable-options", "--harness-timeout",
            "%ds" % group.get("timeout_s", 300)]
    if group.get("stubbing"):
        cmd += ["-Z", "stubbing"]
    if group.get("cbmc_args"):
        cmd += ["--cbmc-args"] + list(group["cbmc_args"])
    # concrete playback makes kani-driver itself parse the whole CBMC trace: give the process tree far
    # more address space than the verification run (the driver aborts with "memory allocation failed"
    # under the per-harness cap)
    mem_kb = int(max(40, group.get("mem_gb", 12) * 2) * 1024 * 1024)
    shell = "ulimit -v %d; exec %s" % (mem_kb, " ".join("'%s'" % c for c in cmd))
    p = subprocess.run(["bash", "-c", shell], cwd=cwd, env=env, capture_output=True, text=True,
                       timeout=max(900, group.get("timeout_s", 300) * 3))
    out = p.stdout + p.stderr
    # Kani prints one test per failed check AND one per satisfied cover: take a failed-check test
    blocks = re.findall(r"(/// Test generated for harness.*?\n#\[test\]\nfn kani_concrete_playback_\w+\(\) \{.*?\n\}\n)", out, re.S)
    blocks = [b for b in blocks if not re.search(r"Check for `cover`", b)] or []
    fallback = False
    if not blocks:
        # Kani sometimes reports a failing harness but "did not generate unit tests" (seen with Vec-heavy
        # harnesses).  Fallback: look for a failing input natively by rejection sampling through the same
        # concrete-playback API (confirmation only; the solver verdict already exists).
        fallback = True
        tmpl = open(os.path.join(VERIF, "harness", "replay", "witness_search.rs.tmpl")).read()
        tag = re.sub(r"\W+", "_", harness.split("::")[-1])[-40:]
        test_src = (tmpl.replace("@TAG@", tag).replace("@HARNESS@", harness.split("::")[-1])
                    .replace("@SEED@", str(int(os.environ.get("VERIF_SEED", "0") or 0)))
                    .replace("@TRIALS@", os.environ.get("VERIF_WITNESS_TRIALS", "300000")))
        tname = "kani_witness_search_" + tag
        kani_msg = out[-600:]
    else:
        test_src = blocks[0]
        tname = re.search(r"fn (kani_concrete_playback_\w+)", test_src).group(1)
    # insert the test next to the harness (scratch copy only)
    short = harness.split("::")[-1]
    src_dir = paths["harness_core"] if group["crate"] == "core" else os.path.join(paths["packet"], "src")
    target_file = None
    # a harness is either written out (`fn name(`) or generated by a macro (`some_macro!(name, ...`)
    for pat in (r"fn %s\s*\(" % re.escape(short), r"!\(\s*%s\b" % re.escape(short)):
        for fn in sorted(os.listdir(src_dir)):
            if fn.endswith(".rs") and fn not in ("common.rs", "sockets.rs") and re.search(
                    pat, open(os.path.join(src_dir, fn)).read()):
                target_file = os.path.join(src_dir, fn)
                break
        if target_file:
            break
    if target_file is None:
        # macro-generated harness: put the test in the module named by the harness path
        mod = harness.split("::")[-2] if "::" in harness else None
        cand = os.path.join(src_dir, (mod or "") + ".rs")
        if mod and os.path.exists(cand):
            target_file = cand
    if target_file is None:
        return {"reproduced": None, "why": "could not locate harness source for " + harness, "test": test_src}
    with open(target_file, "a") as f:
        if fallback:
            f.write(test_src)
        else:
            f.write("\n#[cfg(kani)]\nmod kani_playback_%s {\n    use super::*;\n%s\n}\n" % (tname[-12:], test_src))
    # the native test build pulls trippy-core's dev-dependencies (tracing-subscriber, ...) which need the
    # REAL tracing crate: drop the shim patch for the playback build, restore it afterwards
    cfg_path = os.path.join(paths["repo"], ".cargo", "config.toml")
    lock_path = os.path.join(paths["repo"], "Cargo.lock")
    cfg_saved = open(cfg_path).read() if group["crate"] == "core" else None
    lock_saved = open(lock_path).read() if group["crate"] == "core" else None
    if cfg_saved is not None:
        open(cfg_path, "w").write("[net]\noffline = true\n")
        # the patched build rewrote Cargo.lock (shim instead of the registry tracing): use the repo's own lock
        shutil.copy(os.path.join(REPO, "Cargo.lock"), lock_path)
    results = {}
    for prof, extra_env in (("dev", {}), ("release", {
            "CARGO_PROFILE_TEST_OPT_LEVEL": "3", "CARGO_PROFILE_TEST_DEBUG_ASSERTIONS": "false",
            "CARGO_PROFILE_TEST_OVERFLOW_CHECKS": "false", "CARGO_PROFILE_DEV_OPT_LEVEL": "3",
            "CARGO_PROFILE_DEV_DEBUG_ASSERTIONS": "false", "CARGO_PROFILE_DEV_OVERFLOW_CHECKS": "false"})):
        e2 = dict(env)
        e2.update(extra_env)
        e2["CARGO_TARGET_DIR"] = os.path.join(paths["root"], "target-" + scratch_tag + "-" + prof)
        c2 = ["cargo", "kani", "playback", "-Z", "concrete-playback"]
        if group["crate"] == "core":
            c2 += ["-p", "trippy-core"]
        c2 += ["--", tname] + (["--nocapture"] if fallback else [])
        q = subprocess.run(c2, cwd=cwd, env=e2, capture_output=True, text=True, timeout=2400)
        o = q.stdout + q.stderr
        ran = re.search(r"test result: (\w+)\. (\d+) passed; (\d+) failed", o)
        panicked = re.findall(r"panicked at ([^\n]+)\n([^\n]*)", o)
        wit = re.search(r"WITNESS-FOUND[^\n]*\nWITNESS-VALUES ([^\n]*)", o)
        results[prof] = {"rc": q.returncode, "ran": bool(ran) and (int(ran.group(2)) + int(ran.group(3)) > 0),
                         "failed": bool(ran) and int(ran.group(3)) > 0 and (not fallback or bool(wit)),
                         "witness_values": wit.group(1)[:2000] if wit else None,
                         "witness_search": (re.search(r"WITNESS-(NOT-)?FOUND[^\n]*", o) or [None])[0] if fallback else None,
                         "panic": ["%s %s" % (a, b) for a, b in panicked][:3],
                         "tail": o[-800:] if not ran else ""}
    if cfg_saved is not None:
        open(cfg_path, "w").write(cfg_saved)
        open(lock_path, "w").write(lock_saved)
    rep = any(r["failed"] for r in results.values())
    ran_any = any(r["ran"] for r in results.values())
    return {"reproduced": rep if ran_any else None, "profiles": results, "test": test_src if not fallback else "(witness search)",
            "test_name": tname, "method": "native witness search (Kani emitted no playback test)" if fallback else "kani concrete playback",
            "why": "" if ran_any else "playback test did not run"}


# --------------------------------------------------------------------------- main


def load_known():
    p = os.path.join(VERIF, "known_findings.json")
    if not os.path.exists(p):
        return {"findings": [], "fixed": []}
    return json.load(open(p))


def match_known(known, prop, harness, failed_checks):
    """A failing harness is a known finding iff an entry names this harness and every failed
    check matches one of the entry's expected check patterns."""
    for k in known.get("findings", []):
        if k["property"] != prop and prop not in k.get("also_properties", []):
            continue
        if k["harness"] != harness.split("::")[-1] and k["harness"] != harness:
            continue
        pats = [re.compile(p) for p in k.get("expected_checks", [".*"])]
        if all(any(p.search("%s @%s" % (c["description"], c["location"])) for p in pats) for c in failed_checks):
            return k
    return None


def select_groups(prop, tier, only=None):
    gs = []
    for g in table.GROUPS:
        props = g["property"] if isinstance(g["property"], list) else [g["property"]]
        if tier == "thorough":
            # lemma groups too heavy for the 15-minute quick budget of a second property run for it in the thorough tier
            props = props + list(g.get("thorough_property", []))
        if prop not in props:
            continue
        if g.get("tier", "quick") == "thorough" and tier != "thorough":
            continue
        if g.get("tier") == "quick-only" and tier != "quick":
            continue
        if only and only not in g["id"]:
            if not any(only in h or h in only for h in g["harnesses"]):
                continue
            g = dict(g)
            g["harnesses"] = [only]
            g.pop("expect_harnesses", None)
        gs.append(g)
    return gs


def write_evidence(prop, tier, seed, wall, groups, results, verdicts, violations, known_hits, inconclusive, attempted=()):
    samples = []
    n_queries = 0
    solver_s = 0.0
    symex_s = 0.0
    passed = 0
    for res in results:
        for hid, h in res["harnesses"].items():
            n_queries += int(h.get("n_checks") or 0)
            solver_s += float(h.get("solver_s") or 0)
            symex_s += float(h.get("symex_s") or 0)
            v = verdicts.get(hid, ("?", ""))
            if v[0] == "pass":
                passed += 1
            if len(samples) < 40:
                samples.append({"harness": hid, "group": res["group"], "verdict": v[0], "note": v[1][:200],
                                "checks": h.get("n_checks"), "covers_satisfied": h.get("covers_satisfied"),
                                "cover_witnesses": [c["description"] for c in h.get("cover_details", [])][:8],
                                "solver_s": h.get("solver_s"), "symex_s": h.get("symex_s")})
    if not samples:
        samples = [{"harness": None, "verdict": "inconclusive", "note": json.dumps(i)[:300]} for i in inconclusive[:5]] or [
            {"harness": None, "verdict": "nothing ran"}]
    obligations = sum(len(r["harnesses"]) for r in results)
    ev = {
        "property_id": prop, "tier": tier, "seed": seed, "level": "model_checking",
        "coverage": {
            "evaluations": max(n_queries, 0),
            "distinct_nontrivial": passed,
            "rule": "evaluations = verification conditions (assertions, panics, overflow, bounds, unwinding "
                    "assertions, cover witnesses) decided by CBMC/CaDiCaL over all values of the symbolic inputs "
                    "within the stated bounds; distinct_nontrivial = proof harnesses whose every condition was "
                    "discharged AND whose every kani::cover! vacuity witness was SATISFIED (each harness is a "
                    "distinct obligation over the real compiled code)",
            "obligations": obligations,
            "discharged": passed,
            "known_findings": known_hits,
            "inconclusive": inconclusive,
            "attempted_beyond_claim_inconclusive": list(attempted),
            "solver_time_s": round(solver_s, 3),
            "symex_time_s": round(symex_s, 3),
            "functions_encoded": sorted({f for g in groups for f in g.get("functions", [])}),
            "bounds": [g["id"] + ": " + g.get("bounds", "") for g in groups],
            "stubs": sorted({s for g in groups for s in g.get("stubs", [])}),
            "engine": KANI_TOOLCHAIN_HINT,
            "commands": [r["cmd"] for r in results],
            "samples": samples,
            "exhaustive": False,
        },
        "assumptions": sorted({a for g in groups for a in g.get("assumptions", [])} | {
            "Kani MIR->GOTO translation, CBMC 6.11 and CaDiCaL are sound",
            "tracing shim: spans/events are no-ops (no subscriber); event arguments are not evaluated",
            "results hold only within the bounds listed in coverage.bounds; nothing is claimed outside them"}),
        "wall_s": round(wall, 2),
        "violations": len(violations),
    }
    os.makedirs(os.path.join(VERIF, "evidence"), exist_ok=True)
    with open(os.path.join(VERIF, "evidence", prop + ".json"), "w") as f:
        json.dump(ev, f, indent=1)


def do_replay(prop, path):
    """Re-run a recorded counterexample (concrete playback test) against the current tree."""
    rec = json.load(open(path))
    scratch = os.environ.get("TRIPPY_VERIF_SCRATCH", "/var/tmp/trippy-verif.%d" % os.getpid())
    try:
        paths = prepare_scratch(scratch)
        group = next(g for g in table.GROUPS if g["id"] == rec["group"])
        r = playback(group, paths, rec["harness"], "replay")
        print(json.dumps({k: v for k, v in r.items() if k != "test"}, indent=1))
        if r.get("reproduced"):
            print("VIOLATION property=%s replay=%s" % (prop, path))
            return 1
        return 0 if r.get("reproduced") is False else 2
    finally:
        shutil.rmtree(scratch, ignore_errors=True)


def main():
    ap = argparse.ArgumentParser()
    ap.add_argument("prop", nargs="?")
    ap.add_argument("--tier", default=os.environ.get("VERIF_TIER", "quick"))
    ap.add_argument("--only")
    ap.add_argument("--keep", action="store_true")
    ap.add_argument("--replay")
    ap.add_argument("--list", action="store_true")
    ap.add_argument("--parallel", type=int, default=int(os.environ.get("VERIF_PARALLEL", "3")))
    ap.add_argument("--no-evidence", action="store_true")
    a = ap.parse_args()
    if a.list:
        for g in table.GROUPS:
            print(g["id"], g["property"], g.get("tier", "quick"), g["harnesses"])
        return 0
    prop = a.prop
    if a.replay:
        return do_replay(prop, a.replay)
    seed = int(os.environ.get("VERIF_SEED", "0") or 0)
    tier = a.tier if a.tier in ("quick", "thorough") else "quick"
    groups = select_groups(prop, tier, a.only)
    groups.sort(key=lambda g: -g.get("priority", 0))  # stable: longest group first where the table says so
    if not groups:
        log("no harness groups for", prop)
        return 2
    scratch = os.environ.get("TRIPPY_VERIF_SCRATCH", "/var/tmp/trippy-verif.%d" % os.getpid())
    t0 = time.time()
    known = load_known()
    violations, known_hits, inconclusive, failures = [], [], [], []
    attempted = []
    verdicts = {}
    results = []
    try:
        paths = prepare_scratch(scratch)
        with ThreadPoolExecutor(max_workers=max(1, a.parallel)) as ex:
            futs = [ex.submit(run_group, g, paths, tier) for g in groups]
            for g, f in zip(groups, futs):
                res = f.result()
                results.append(res)
                log("[%s] rc=%s wall=%.0fs harnesses=%d" % (g["id"], res["rc"], res["wall_s"], len(res["harnesses"])))
                if (res.get("build_failed") or not res["harnesses"]) and g.get("best_effort"):
                    attempted.append({"group": g["id"], "why": "no result (wall timeout / memory)"})
                    continue
                if res.get("build_failed") or not res["harnesses"]:
                    inconclusive.append({"group": g["id"], "why": "no results (build failed, wall timeout or no "
                                         "matching harness)", "tail": res.get("tail", "")[-1500:]})
                    log(res.get("tail", "")[-2500:])
                    continue
                expected = g.get("expect_harnesses")
                if expected and len(res["harnesses"]) < expected:
                    inconclusive.append({"group": g["id"], "why": "only %d of %d expected harnesses ran" % (
                        len(res["harnesses"]), expected)})
                for hid, h in res["harnesses"].items():
                    v, why = classify(h)
                    verdicts[hid] = (v, why)
                    if v == "pass":
                        continue
                    if v == "inconclusive":
                        if g.get("best_effort"):
                            # an attempt beyond the stated bounds of the claim: reported, never counted
                            attempted.append({"harness": hid, "why": why, "group": g["id"]})
                            verdicts[hid] = ("attempted-inconclusive", why)
                            log("  attempted (best effort), inconclusive %s: %s" % (hid, why))
                        else:
                            inconclusive.append({"harness": hid, "why": why})
                            log("  INCONCLUSIVE %s: %s" % (hid, why))
                        continue
                    k = match_known(known, prop, hid, h["failed_checks"])
                    if k:
                        known_hits.append({"id": k["id"], "harness": hid, "what": k["what"]})
                        verdicts[hid] = ("known-finding", k["id"])
                        continue
                    log("  FAILED %s: %s" % (hid, why))
                    failures.append((h.get("duration_ms") or 0, g, hid, h, why))
        # replay: cheapest failing harness first; one natively reproduced counterexample makes the
        # property violated, the remaining failures are listed without spending time replaying them
        failures.sort(key=lambda f: f[0])
        for _dur, g, hid, h, why in failures:
            rdir = os.path.join(VERIF, "replays", prop)
            os.makedirs(rdir, exist_ok=True)
            rpath = os.path.join(rdir, re.sub(r"\W+", "_", hid) + ".json")
            if violations and len(violations) >= 1 and any(v.get("replayed") for v in violations):
                json.dump({"property": prop, "group": g["id"], "harness": hid, "failed_checks": h["failed_checks"],
                           "playback": None, "note": "not replayed: another counterexample of this property already "
                           "reproduced natively in this run"}, open(rpath, "w"), indent=1)
                violations.append({"harness": hid, "why": why, "replay": rpath, "replayed": False})
                verdicts[hid] = ("violation", why + " (not replayed)")
                continue
            try:
                pb = playback(g, paths, hid, "pb_" + re.sub(r"\W+", "_", hid)[-40:])
            except Exception as e:  # noqa: BLE001
                pb = {"reproduced": None, "why": "playback error: %s" % e}
            json.dump({"property": prop, "group": g["id"], "harness": hid, "failed_checks": h["failed_checks"],
                       "playback": pb}, open(rpath, "w"), indent=1)
            if pb.get("reproduced"):
                violations.append({"harness": hid, "why": why, "replay": rpath, "replayed": True})
                verdicts[hid] = ("violation", why)
            else:
                inconclusive.append({"harness": hid, "why": "counterexample did not reproduce natively "
                                     "(encoding suspect): " + str(pb.get("why", "")), "checks": why})
                verdicts[hid] = ("inconclusive", "cex not reproduced")
    finally:
        if not a.keep:
            shutil.rmtree(scratch, ignore_errors=True)
        else:
            log("scratch kept at", scratch)
    wall = time.time() - t0
    if not a.no_evidence and not a.only and not os.environ.get("VERIF_NO_EVIDENCE"):
        write_evidence(prop, tier, seed, wall, groups, results, verdicts, violations, known_hits, inconclusive, attempted)
    for k in known_hits:
        print("KNOWN-FINDING: property=%s %s [%s] %s" % (prop, k["id"], k["harness"].split("::")[-1], k["what"]))
    npass = sum(1 for v in verdicts.values() if v[0] == "pass")
    print("%s tier=%s: %d harnesses, %d discharged, %d known findings, %d violations, %d inconclusive, %.0fs" % (
        prop, tier, len(verdicts), npass, len(known_hits), len(violations), len(inconclusive), wall))
    if violations:
        for v in violations:
            if v.get("replayed", True):
                print("VIOLATION property=%s replay=%s" % (prop, v["replay"]))
            else:
                print("also failing (counterexample not replayed): %s" % v["harness"])
            log("  ", v["harness"], v["why"])
        return 1
    if inconclusive:
        for i in inconclusive:
            print("INCONCLUSIVE: " + json.dumps(i)[:600])
        return 2
    return 0


if __name__ == "__main__":
    try:
        rc = main()
    except SystemExit:
        raise
    except BaseException as e:  # noqa: BLE001 - an internal error is never a verdict
        import traceback
        traceback.print_exc()
        print("INCONCLUSIVE: internal error in the driver: %r" % (e,))
        rc = 2
    sys.exit(rc)
