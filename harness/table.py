"""Harness groups: one `cargo kani` invocation each.  See DESIGN.md 1.5.

fields: id, property (id or list), crate ('packet' = external crate /verif/kani/packet,
'core' = harnesses included into trippy-core through the cfg(kani) hooks), tier
('quick' groups run in both tiers, 'thorough' only in the thorough tier), harnesses (name
filters passed to --harness), jobs, timeout_s (per harness), mem_gb (per CBMC process),
cbmc_args, stubbing, functions (real functions encoded), bounds, stubs, assumptions.
"""

FS512 = ["--max-field-sensitivity-array-size", "512"]

PACKET_VIEWS = [
    "trippy_packet::ipv4::Ipv4Packet", "trippy_packet::ipv6::Ipv6Packet", "trippy_packet::udp::UdpPacket",
    "trippy_packet::tcp::TcpPacket", "trippy_packet::icmpv4::{IcmpPacket,EchoRequestPacket,EchoReplyPacket,"
    "TimeExceededPacket,DestinationUnreachablePacket}", "trippy_packet::icmpv6::{IcmpPacket,EchoRequestPacket,"
    "EchoReplyPacket,TimeExceededPacket,DestinationUnreachablePacket}",
    "trippy_packet::icmp_extension::{ExtensionsPacket,ExtensionHeaderPacket,ExtensionObjectPacket,"
    "MplsLabelStackPacket,MplsLabelStackMemberPacket}", "trippy_packet::buffer::Buffer::{get_bytes,set_bytes,read,write}",
]

GROUPS = [
    # ------------------------------------------------------------------ C12
    {
        "id": "C12.fields", "property": "C12", "crate": "packet", "harnesses": ["c12_"], "jobs": 16,
        "timeout_s": 300, "mem_gb": 8,
        "functions": PACKET_VIEWS + ["every set_*/get_* pair, new, new_view, set_payload, payload, minimum_packet_size"],
        "bounds": "buffer = minimum header + 4 (fields) / + 8 (constructors) / 68 bytes (IHL and data-offset payload "
                  "placement); setter argument over its full width (2^8/2^16/2^32/2^128) in one query; arbitrary "
                  "pre-existing buffer contents",
        "stubs": [],
        "assumptions": ["bit-range table in kani/packet/src/c12_fields.rs is the RFC oracle (RFC 791, 8200, 768, "
                        "9293+3540, 792, 4443, 4884, 4950)"],
    },
    # ------------------------------------------------------------------ C04 (packet views)
    {
        "id": "C04.accessors", "property": "C04", "crate": "packet", "tier": "quick-only", "harnesses": ["c04_acc_"],
        "jobs": 16, "timeout_s": 300, "mem_gb": 8,
        "functions": PACKET_VIEWS + ["every getter, payload, payload_raw, extension, get_options_raw(_mut), header, packet"],
        "bounds": "arbitrary buffer of 64 bytes, arbitrary view length in [minimum header, 64]; every IHL / data-offset / "
                  "payload-length / RFC 4884 length-byte value against every buffer length",
    },
    {
        "id": "C04.accessors.N160", "property": "C04", "crate": "packet", "tier": "thorough", "harnesses": ["c04_acc_"],
        "env": {"VERIF_THOROUGH": "1"}, "jobs": 16, "timeout_s": 1800, "mem_gb": 12,
        "functions": PACKET_VIEWS,
        "bounds": "arbitrary buffer of 160 bytes (> 128 + 8 + 4, so the RFC 4884 extension branch is live), arbitrary view "
                  "length in [minimum header, 160]",
    },
    {
        "id": "C04.iterators", "property": ["C04", "C14"], "crate": "packet", "harnesses": ["c04_iter_"], "jobs": 4,
        "timeout_s": 600, "mem_gb": 8,
        "functions": ["ExtensionObjectIter::next", "MplsLabelStackIter::next", "ExtensionsPacket::{header,objects}",
                      "ExtensionObjectPacket::{get_length,payload}", "MplsLabelStackMemberPacket::get_bos"],
        "bounds": "arbitrary extension structure / label stack of <= 32 bytes, arbitrary length; unwind 11 = 32/4 + 3: the "
                  "unwinding assertion is the termination proof within the bound",
    },
    {
        "id": "C14.split", "property": ["C04", "C14"], "crate": "packet", "harnesses": ["c14_split_"], "jobs": 8,
        "timeout_s": 600, "mem_gb": 8,
        "functions": ["extension_splitter::split", "icmpv4/icmpv6 TimeExceededPacket/DestinationUnreachablePacket::"
                      "{split_payload_extension,payload,payload_raw,extension,get_length}"],
        "bounds": "every length 0..=2040 x every ICMP body length 0..=1024 (content-independent: zero buffer); the four "
                  "real views for every length byte 0..=255 x every message length 8..=1032",
    },
    # ------------------------------------------------------------------ C13 (codec)
    {
        "id": "C13.codec.N64", "property": "C13", "crate": "packet", "tier": "quick-only", "harnesses": ["c13_"],
        "jobs": 16, "timeout_s": 600, "mem_gb": 8,
        "functions": ["checksum::{icmp_ipv4_checksum,icmp_ipv6_checksum,udp_ipv4_checksum,udp_ipv6_checksum,"
                      "tcp_ipv4_checksum,ipv4_header_checksum,sum_be_words,finalize_checksum,ipv4_checksum,ipv6_checksum}"],
        "bounds": "symbolic content AND symbolic length in [header, 64] (odd and even), symbolic address pairs; folding "
                  "lemma over all 2^32 partial sums",
        "assumptions": ["reference = plain RFC 1071 word loop in kani/packet/src/c13_checksum.rs with the checksum field "
                        "read as zero; 'sums to 0xFFFF after insertion' follows by the folding lemma c13_fold_lemma"],
    },
    {
        "id": "C13.codec.N256", "property": "C13", "crate": "packet", "tier": "thorough", "harnesses": ["c13_"],
        "env": {"VERIF_THOROUGH": "1"}, "jobs": 8, "timeout_s": 3000, "mem_gb": 16,
        "functions": ["checksum::* (as C13.codec.N64)"],
        "bounds": "symbolic content AND symbolic length in [header, 256], symbolic address pairs",
    },
    # ------------------------------------------------------------------ C14 (codec)
    {
        "id": "C14.objects", "property": "C14", "crate": "packet", "harnesses": ["c14_objects_", "c14_original_"],
        "jobs": 4, "timeout_s": 600, "mem_gb": 8,
        "functions": ["ExtensionsPacket::objects", "ExtensionObjectPacket::{set_*,get_*,payload}",
                      "MplsLabelStackPacket::members", "MplsLabelStackMemberPacket::{set_*,get_*}",
                      "TimeExceededPacket::{set_length,set_payload,payload,extension}"],
        "bounds": "<= 2 objects: one MPLS object with 1..=2 symbolic members, one opaque object with 0..=4 symbolic bytes; "
                  "original datagram of 136 symbolic bytes + 12-byte extension",
    },
]

# ====================================================================== trippy-core (hooks)
STATE_FNS = ["strategy::state::TracerState::{next_probe,reissue_probe,fail_probe,complete_probe,advance_round,in_round,"
             "round_has_capacity,probes,probe_at,probe_data,probe_icmp_data,probe_udp_data,probe_tcp_data,max_sequence,finished}"]
STRAT_FNS = ["strategy::Strategy::{send_request,do_send,recv_response,update_round,publish_trace,check_trace_id,validate}",
             "strategy::StrategyResponse::from", "strategy::ProtocolStrategyResponse::from", "strategy::exceeds"]
INV_TXT = ("pre-states: every TracerState satisfying the representation invariant INV (harness/core/strategy_state.rs "
           "inv_scalar / slot_ok), buffer all NotSent except the slots the harness sets")
CLOCK_STUB = "std::time::SystemTime::now -> harness clock (symbolic instants armed by the harness)"
NET_STUB = "Network = SymNet (harness): arbitrary send outcome Ok/ProbeFailed/AddressInUse/Fatal, records probes"
SOCK_STUB = "Socket = HSock (harness): read/recv_from return the armed symbolic bytes; send_to hands the bytes to the independent decoder; bind/connect/send outcomes symbolic"
FS1100 = ["--max-field-sensitivity-array-size", "1100"]

GROUPS += [
    # ------------------------------------------------------------------ C07
    {
        "id": "C07.scalar", "property": ["C07", "C03"], "crate": "core", "stubbing": True,
        "harnesses": ["c07_advance_round_step", "c07_window_predicates"], "jobs": 4, "timeout_s": 300, "mem_gb": 8,
        "functions": STATE_FNS, "stubs": [CLOCK_STUB],
        "bounds": "all initial sequences 0..=64511, both maximum-sequence regimes, all round sizes 0..=512, all "
                  "round_sequence / sequence values in one query (one inductive step); " + INV_TXT,
    },
    {
        "id": "C07.sym", "property": ["C07", "C16"], "crate": "core", "harnesses": ["c07_next_probe_sym"],
        "jobs": 2, "timeout_s": 900, "mem_gb": 24, "functions": STATE_FNS,
        "bounds": "next_probe with round_sequence, sequence (hence slot index), ttl, round, config ALL symbolic; scalar "
                  "post-conditions only (the same for reissue_probe is in the thorough tier: its two symbolic-index writes sit "
                  "at the solver's memory cliff, 106 s / 10 GB on one build and > 900 s / 30 GB on the next); " + INV_TXT,
    },
    {
        "id": "C07.slot", "property": ["C07", "C01"], "crate": "core",
        "harnesses": ["c07_next_probe_slot", "c07_reissue_probe_slot"], "jobs": 8, "timeout_s": 300, "mem_gb": 8,
        "functions": STATE_FNS,
        "bounds": "slot contents at window positions (round_sequence, size) in {(0,0),(0,511),(33434,7),(33434,253),"
                  "(64511,1),(65022,0),(65022,511)} / reissue {(0,1),(1,2),(255,255),(33434,300),(64511,255),(65022,256),(65022,511)}; "
                  "every other field (ttl, round, config, ports, ids) symbolic",
        "assumptions": ["slot effects do not depend on the numeric window position (by inspection: one or two computed "
                        "indices, no other slot is read)"],
    },
    {
        "id": "C07.dublin6", "property": ["C07", "C16", "C02"], "crate": "core", "stubbing": True, "cbmc_args": FS1100,
        "harnesses": ["c07_v6_dublin_payload_slice_in_range"], "jobs": 2, "timeout_s": 900, "mem_gb": 12,
        "functions": ["net::ipv6::Ipv6::{dispatch_udp_probe,dispatch_udp_probe_raw,make_udp_packet}"],
        "stubs": [SOCK_STUB, "trippy_packet::checksum::udp_ipv6_checksum -> arbitrary u16 (cut; C13 covers it)"],
        "bounds": "every sequence offset 0..=970 (what INV allows: c07_next_probe_sym_v6), symbolic initial sequence; the datagram "
                  "handed to the socket and its UDP length field are 8 + marker + offset for every such offset (wire contract of C02)",
    },
    # ------------------------------------------------------------------ C06 / C09 / C01 send step
    {
        "id": "C06.send", "property": ["C06", "C09", "C01"], "crate": "core", "stubbing": True,
        "harnesses": ["c06_send_step_icmp", "c06_send_step_udp"], "jobs": 5, "timeout_s": 900, "mem_gb": 10,
        "functions": STRAT_FNS + STATE_FNS, "stubs": [CLOCK_STUB, NET_STUB],
        "bounds": "one send_request step, ICMP/UDP, window positions {(0,0),(33434,5),(64511,0),(33434,9),(65022,253)}, ttl / "
                  "max-received / target-ttl / target-found / first,max ttl / max-inflight / addresses / ports symbolic; "
                  "unwind 2 (no loop may iterate: Vec clone/drop paths are infeasible for NotSent/Awaited slots)",
    },
    {
        "id": "C06.send.tcp", "property": ["C06", "C09", "C01", "C07"], "crate": "core", "stubbing": True,
        "harnesses": ["c06_send_step_tcp"], "jobs": 4, "timeout_s": 1200, "mem_gb": 15,
        "functions": STRAT_FNS + STATE_FNS, "stubs": [CLOCK_STUB, NET_STUB],
        "bounds": "one TCP send_request step with at most ONE AddressInUse answer (re-issue loop body is uniform), window "
                  "positions {(0,0),(33434,17),(65022,510),(65022,511),(33434,512)}: budget boundary 510/511/512 included",
    },
    # ------------------------------------------------------------------ C08 / C09
    {
        "id": "C08.update_round", "property": ["C08", "C09"], "crate": "core", "stubbing": True,
        "harnesses": ["c08_"], "jobs": 2, "timeout_s": 600, "mem_gb": 8,
        "functions": STRAT_FNS + ["TracerState::advance_round"], "stubs": [CLOCK_STUB],
        "bounds": "clock reading, round start, last-response time: seconds < 2^32, any nanosecond, unordered (clock may step "
                  "backwards); min <= max <= 2^32 s, grace any; one update_round call",
    },
    {
        "id": "C09.steps", "property": "C09", "crate": "core", "harnesses": ["c09_finished", "c09_recv_", "c09_error_mapper_table", "c09_fail_probe_slot"], "jobs": 3,
        "timeout_s": 600, "mem_gb": 10, "functions": STRAT_FNS + STATE_FNS + ["net::common::ErrorMapper::{in_progress,addr_in_use,probe_failed}"], "stubs": [NET_STUB],
        "bounds": "finished: all n >= 1, all round counters; recv_response with a fatal error / a timeout from every INV state; "
                  "ErrorMapper on representatives of 7 errno classes x 3 socket operations x 4 transient kinds; fail_probe at three "
                  "concrete (initial sequence, round start, round size) positions: (100, 300, 5), (33434, 33434, 1), (0, 65022, 511)",
    },
    # ------------------------------------------------------------------ C10
    {
        "id": "C10.publish", "property": ["C10", "C01"], "crate": "core", "harnesses": ["c10_publish_trace"], "jobs": 1,
        "timeout_s": 300, "mem_gb": 8, "functions": STRAT_FNS + ["TracerState::probes"],
        "bounds": "every INV state (all scalars symbolic)",
    },
    {
        "id": "C10.window", "property": "C10", "crate": "core", "stubbing": True,
        "stubs": ["std::hash::RandomState::new -> arbitrary keys (the OS random source is a syscall)"],
        "harnesses": ["c10_flow_state_window_queries"], "jobs": 1,
        "timeout_s": 900, "mem_gb": 12, "functions": ["state::FlowState::{new,hops,target_hop,is_target,is_in_round,round,round_count}"],
        "bounds": "real FlowState::new (254 hops) with lowest/highest/highest-for-round ttl symbolic under WIN",
        "assumptions": ["WIN (lowest in {0} u [1,254], hfr <= highest <= 254, lowest <= highest when both set) is what "
                        "StateUpdater::apply maintains: by reading (update_for_probe is outside reach)"],
    },
    # ------------------------------------------------------------------ C01 / C03 receive step
    {
        "id": "C01.complete", "property": ["C01", "C03", "C06", "C08"], "crate": "core", "harnesses": ["c01_complete_probe_awaited"],
        "jobs": 3, "timeout_s": 900, "mem_gb": 12, "functions": STATE_FNS,
        "bounds": "complete_probe on an Awaited slot at window positions {(0,2,0),(33434,9,7),(65022,512,510)} (round_sequence, "
                  "size, slot), arbitrary derived response (extensions: None or empty list), unwind 2",
    },
    {
        "id": "C03.ignored", "property": ["C03", "C01", "C04"], "crate": "core",
        "harnesses": ["c03_duplicate_ignored", "c03_never_sent_ignored", "c03_skipped_ignored", "c03_failed_ignored"],
        "jobs": 6, "timeout_s": 900, "mem_gb": 12, "functions": STATE_FNS,
        "bounds": "complete_probe on a Complete / NotSent / Skipped / Failed slot at representative window positions, "
                  "arbitrary derived response, unwind 2",
    },
    {
        "id": "C03.decision", "property": ["C03", "C01", "C19", "C04"], "crate": "core", "harnesses": ["c03_recv_decision"],
        "jobs": 10, "timeout_s": 300, "mem_gb": 8, "functions": STRAT_FNS + ["TracerState::in_round"],
        "bounds": "5 response kinds x 3 protocol payloads x {v4,v6} (10 representative combinations), every field of the "
                  "response, configuration and window symbolic",
    },
    {
        "id": "C03.recv_gates", "property": ["C03", "C01"], "crate": "core", "priority": 1,
        "harnesses": ["c03_recv_response_"], "jobs": 2, "timeout_s": 1200, "mem_gb": 24,
        "functions": STRAT_FNS + STATE_FNS, "stubs": [NET_STUB],
        "bounds": "the composed receive step recv_response (validate, from, check_trace_id, in_round as wired by the real "
                  "code): an echo reply naming the sequence just beyond the 512-slot window; an echo reply for an AWAITED probe "
                  "carrying a foreign non-zero identifier - window (33434, 3), unwind 2 "
                  "(just below the round = previous round's last, 0 and 65535: thorough tier)",
    },
    # ------------------------------------------------------------------ C02
    {
        "id": "C02.identity", "property": ["C02", "C03", "C01"], "crate": "core", "harnesses": ["c02_identity"], "jobs": 6,
        "timeout_s": 300, "mem_gb": 8, "functions": STRAT_FNS + ["TracerState::probe_data", "TracerState::in_round"],
        "bounds": "all 2^16 sequences x rounds x ports x addresses x identifiers, per protocol x family (6 queries)",
        "assumptions": ["wire contract: IPv4 identification = probe identifier, UDP ports = probe ports, UDP checksum = "
                        "sequence (Paris), UDP payload length = sequence - initial + marker (Dublin/IPv6), ICMP id/seq; "
                        "honoured by dispatch (c11_*) and by parse (c02_v*_extract_*)"],
    },
    {
        "id": "C02.extract.v4", "property": "C02", "thorough_property": ["C01"], "priority": 1, "crate": "core", "stubbing": True, "cbmc_args": FS1100,
        "harnesses": ["c02_v4_extract", "c02_v4_recv_tcp_socket", "c02_channel_tcp_attempts_expire"], "jobs": 4, "timeout_s": 900, "mem_gb": 12,
        "functions": ["net::ipv4::Ipv4::{extract_probe_proto_resp,calc_udp_checksum,recv_tcp_socket}", "net::channel::Channel::recv_tcp_sockets (expiry)",
                      "net::ipv4::{extract_echo_request,extract_udp_packet,extract_tcp_packet}"],
        "stubs": [SOCK_STUB, CLOCK_STUB, "udp_ipv4_checksum -> arbitrary u16 in the UDP extract harness (cut)"],
        "bounds": "arbitrary quoted datagram, symbolic length IHL*4+8 ..= 48 (quick) / 64 (thorough), IHL 5..15; every TCP handshake "
                  "outcome (connected / refused / host unreachable / other) with symbolic ports, peer and error addresses",
    },
    {
        "id": "C02.extract.v6", "property": "C02", "thorough_property": ["C01"], "crate": "core", "stubbing": True, "cbmc_args": FS1100,
        "harnesses": ["c02_v6_extract"], "jobs": 3, "timeout_s": 900, "mem_gb": 12,
        "functions": ["net::ipv6::Ipv6::extract_probe_proto_resp", "net::ipv6::{extract_echo_request,extract_udp_packet,"
                      "extract_tcp_packet,udp_payload_has_magic_prefix}"],
        "bounds": "arbitrary quoted datagram, symbolic length 48 ..= 64 (quick) / 80 (thorough)",
    },
    # ------------------------------------------------------------------ C04 receive path
    {
        "id": "C04.recv.v4", "property": ["C04", "C01"], "crate": "core", "stubbing": True, "cbmc_args": FS1100,
        "harnesses": ["c04_v4_recv", "c04_v4_calc"], "jobs": 3, "timeout_s": 1500, "mem_gb": 24,
        "functions": ["net::ipv4::Ipv4::{recv_icmp_probe,extract_probe_resp,extract_probe_proto_resp,calc_udp_checksum}"],
        "stubs": [SOCK_STUB, CLOCK_STUB, "Ipv4::calc_udp_checksum -> arbitrary Ok(u16) in c04_v4_recv_udp (decided separately "
                  "for every size by c04_v4_calc_udp_checksum_any_size and c19_v4_*); udp_ipv4_checksum -> arbitrary u16 there"],
        "bounds": "arbitrary datagram of <= 72 (quick) / 96 (thorough) bytes, every length, ICMP/UDP/TCP x extension mode",
    },
    {
        "id": "C04.recv.v6", "property": ["C04", "C01"], "crate": "core", "stubbing": True, "cbmc_args": FS1100,
        "harnesses": ["c04_v6_recv"], "jobs": 3, "timeout_s": 1500, "mem_gb": 24,
        "functions": ["net::ipv6::Ipv6::{recv_icmp_probe,extract_probe_resp,extract_probe_proto_resp}"],
        "stubs": [SOCK_STUB, CLOCK_STUB],
        "bounds": "arbitrary datagram of <= 72 (quick) / 96 (thorough) bytes, every length, address present / missing",
    },
    # ------------------------------------------------------------------ C11 / C13 / C19 dispatch
    {
        "id": "C11.dispatch.v4", "property": ["C11", "C19", "C09"], "thorough_property": ["C02"], "crate": "core", "stubbing": True, "cbmc_args": FS1100,
        "harnesses": ["c11_v4_", "c09_v4_", "c19_v4_"], "jobs": 5, "timeout_s": 1500, "mem_gb": 12,
        "functions": ["net::ipv4::Ipv4::{dispatch_icmp_probe,dispatch_udp_probe,dispatch_udp_probe_raw,dispatch_tcp_probe,"
                      "make_echo_request_icmp_packet,make_udp_packet,make_ipv4_packet,calc_udp_checksum,recv_icmp_probe}",
                      "net::common::ErrorMapper::{in_progress,addr_in_use,probe_failed}", "Ipv4ByteOrder::adjust_length"],
        "stubs": [SOCK_STUB],
        "bounds": "packet sizes {28, 29, 37} + all out-of-range sizes; sequence, identifier, ports, ttl, tos, addresses "
                  "symbolic; payload pattern 0xA5 (quick) / symbolic (thorough); privileged mode (raw headers) and unprivileged UDP "
                  "(socket options); network byte order",
    },
    {
        "id": "C11.dispatch.v6", "property": "C11", "thorough_property": ["C02"], "crate": "core", "stubbing": True, "cbmc_args": FS1100,
        "harnesses": ["c11_v6_dispatch_icmp", "c11_v6_dispatch_udp_min", "c11_v6_dispatch_udp_57", "c11_v6_size_guards",
                      "c11_v6_dispatch_tcp", "c11_v6_dispatch_udp_unprivileged"], "jobs": 5, "timeout_s": 1500, "mem_gb": 12,
        "functions": ["net::ipv6::Ipv6::{dispatch_icmp_probe,dispatch_udp_probe,dispatch_udp_probe_raw,dispatch_tcp_probe,"
                      "make_echo_request_icmp_packet,make_udp_packet}"],
        "stubs": [SOCK_STUB],
        "bounds": "packet sizes {48, 49, 57} + all out-of-range sizes; Dublin payload lengths {0, 21}; fields symbolic",
    },
    {
        # exact encoding (no field-sensitivity option): with it CBMC reports a spurious counterexample for the
        # marker copy from a &'static [u8] (DESIGN 7.2)
        "id": "C11.dispatch.v6.dublin", "property": ["C11", "C02"], "crate": "core", "stubbing": True, "priority": 1,
        "harnesses": ["c11_v6_dispatch_udp_dublin"], "jobs": 2, "timeout_s": 1800, "mem_gb": 24,
        "functions": ["net::ipv6::Ipv6::{dispatch_udp_probe,dispatch_udp_probe_raw,make_udp_packet}"],
        "stubs": [SOCK_STUB],
        "bounds": "Dublin/IPv6 payload = marker + (sequence - initial) bytes for offsets {0, 21}; ports, addresses, ttl, "
                  "initial sequence symbolic",
    },
    {
        "id": "C13.paris", "property": ["C13", "C11"], "thorough_property": ["C02"], "crate": "core", "stubbing": True, "cbmc_args": FS1100,
        "harnesses": ["c13_v4_dispatch_udp_paris", "c13_v6_dispatch_udp_paris"], "jobs": 2, "timeout_s": 1500, "mem_gb": 12,
        "functions": ["Ipv4/Ipv6::dispatch_udp_probe_raw (Paris swap)", "checksum::{udp_ipv4_checksum,udp_ipv6_checksum}"],
        "stubs": [SOCK_STUB],
        "bounds": "all 2^16 sequences x ports x addresses x ttl, both families",
    },
    {
        "id": "C14.core", "property": "C14", "crate": "core", "harnesses": ["c14_core_mpls_member_from", "c14_core_unknown_extension_from"],
        "jobs": 2, "timeout_s": 300, "mem_gb": 8,
        "functions": ["MplsLabelStackMember::from(MplsLabelStackMemberPacket)", "UnknownExtension::from(ExtensionObjectPacket)"],
        "bounds": "arbitrary 4-byte member; arbitrary 8-byte object with length 4..=8",
    },
    {
        "id": "T.c14.try_from", "property": "C14", "crate": "core", "tier": "thorough", "best_effort": True,
        "harnesses": ["c14_core_extensions_try_from_wellformed"], "jobs": 1, "timeout_s": 1500, "mem_gb": 16,
        "functions": ["Extensions::try_from(&[u8])", "Extensions::try_from(ExtensionsPacket)", "MplsLabelStack::from"],
        "bounds": "fixed shape (version-2 header, one MPLS object with two members, one opaque object with two bytes), all "
                  "field values symbolic; may end inconclusive (flat_map/collect), then only the leaf conversions are claimed",
    },
    # ------------------------------------------------------------------ C15 / C16 / C19
    {
        "id": "C15.registry", "property": "C15", "crate": "core", "harnesses": ["c15_"], "jobs": 3, "timeout_s": 1200,
        "mem_gb": 12, "functions": ["flows::FlowRegistry::{new,register,flows}", "flows::Flow::{check,merge,from_hops}"],
        "bounds": "registry of <= 2 flows x <= 2 entries, observed flow of <= 3 entries, addresses 10.0.0.x symbolic",
    },
    {
        "id": "C16.accepted", "property": "C16", "crate": "core", "stubbing": True,
        "harnesses": ["c16_probe_data", "c16_accepted_config", "c16_tcp_probe_table"], "jobs": 6,
        "timeout_s": 900, "mem_gb": 12,
        "functions": ["TracerState::probe_data", "Strategy::{send_request,publish_trace}", "TracerState::advance_round",
                      "net::channel::Channel::{send_probe,dispatch_tcp_probe}"],
        "stubs": [CLOCK_STUB, NET_STUB, SOCK_STUB, "alloc::fmt::format -> empty String (error messages)"],
        "bounds": "every builder-accepted parameter combination (protocol, strategy, port direction, first/max ttl, initial "
                  "sequence); first round from the initial state at initial sequences {0, 33434, 64511}; TCP table 0..=256 entries",
    },
    {
        # the builder's validation is also the base of C07 (initial_sequence <= MAX_INITIAL_SEQUENCE is an INV conjunct)
        "id": "C16.builder", "property": ["C16", "C07"], "crate": "core", "stubbing": True,
        "harnesses": ["c16_builder_rejects"], "jobs": 2, "timeout_s": 600, "mem_gb": 12,
        "functions": ["builder::Builder::build (rejecting half)"],
        "stubs": ["alloc::fmt::format -> empty String (error messages)", "state::State::new / RandomState::new cut (accepting path)"],
        "bounds": "every builder parameter combination (protocol, strategy, port direction, first/max ttl, initial sequence, "
                  "trace identifier ...) in one query",
        "assumptions": ["Builder::build's accepting path (Tracer::new -> State::new) is not executed; make_strategy_config "
                        "is a field-by-field copy (read)"],
    },
    {
        # the round-to-round step without the C07 / C03 separation claim: what C16 (no panic in ANY round), C06 (every round
        # restarts at first-ttl with the target / progress bookkeeping cleared) and C09 (rounds numbered in order) need
        "id": "C16.round_step", "property": ["C16", "C06", "C09"], "crate": "core", "stubbing": True,
        "harnesses": ["c16_advance_round"], "jobs": 2, "timeout_s": 300, "mem_gb": 8,
        "functions": ["TracerState::{advance_round,max_sequence,in_round,probes}"], "stubs": [CLOCK_STUB],
        "bounds": "every accepted configuration, both maximum-sequence regimes, all initial sequences 0..=64511, all round sizes "
                  "0..=512 in one query (one inductive step; with C07.sym / C07.dublin6 this covers any number of rounds); " + INV_TXT,
    },
    {
        "id": "C19.nat", "property": "C19", "crate": "core", "harnesses": ["c19_nat"], "jobs": 2, "timeout_s": 300, "mem_gb": 8,
        "functions": ["state::state_updater::nat_status"],
        "bounds": "all 2^16 x 2^16 x Option<2^16> inputs; three-hop threading with symbolic checksums",
        "assumptions": ["prev_hop_checksum starts at None each round and is threaded hop by hop (StateUpdater::new / "
                        "update_for_probe): by reading (outside reach)"],
    },
    # ------------------------------------------------------------------ thorough-only groups
    {
        "id": "T.base_case", "property": "C07", "crate": "core", "tier": "thorough", "stubbing": True,
        "harnesses": ["c07_base_case_new_satisfies_inv"], "jobs": 1, "timeout_s": 2400, "mem_gb": 24,
        "functions": ["TracerState::new"], "stubs": [CLOCK_STUB],
        "bounds": "the real constructor (512-iteration from_fn) for every accepted configuration: base case of the induction",
    },
    {
        "id": "T.slots.c07", "property": ["C07", "C01"], "crate": "core", "tier": "thorough",
        "harnesses": ["t07_next_probe_slot"], "jobs": 8, "timeout_s": 600, "mem_gb": 8, "functions": STATE_FNS,
        "bounds": "additional window positions (1,254) (255,255) (256,256) (63999,510) (65021,2) / reissue (1,2) (64511,255) (65022,256)",
    },
    {
        "id": "T.reissue_sym", "property": "C07", "crate": "core", "tier": "thorough", "best_effort": True,
        "harnesses": ["t07_reissue_probe_sym"], "jobs": 1, "timeout_s": 1200, "mem_gb": 27, "functions": STATE_FNS,
        "bounds": "reissue_probe with every scalar symbolic (all window positions), scalar post-conditions; may end "
                  "inconclusive (memory) - then the claim rests on the representative positions of C07.slot",
    },
    {
        "id": "T.send", "property": ["C06", "C09", "C01"], "crate": "core", "tier": "thorough", "stubbing": True,
        "harnesses": ["t06_send_step_icmp", "t06_send_step_udp"], "jobs": 4, "timeout_s": 1200, "mem_gb": 12,
        "functions": STRAT_FNS + STATE_FNS, "stubs": [CLOCK_STUB, NET_STUB],
        "bounds": "additional window positions (65022,0) (1,253) (0,1) (64511,100)",
    },
    {
        "id": "T.send.tcp", "property": ["C06", "C09", "C01", "C07"], "crate": "core", "tier": "thorough", "stubbing": True,
        "harnesses": ["t06_send_step_tcp"], "jobs": 3, "timeout_s": 1500, "mem_gb": 18,
        "functions": STRAT_FNS + STATE_FNS, "stubs": [CLOCK_STUB, NET_STUB],
        "bounds": "additional window positions (1,255) (64511,256) (0,509)",
    },
    {
        "id": "T.recv", "property": ["C01", "C03"], "crate": "core", "tier": "thorough",
        "harnesses": ["t01_", "t03_duplicate", "t03_never", "t03_skipped", "t03_failed"], "jobs": 6, "timeout_s": 1200,
        "mem_gb": 12, "functions": STATE_FNS,
        "bounds": "additional window positions for complete_probe on awaited / complete / not-sent / skipped / failed slots",
    },
    {
        "id": "T.decision", "property": ["C03", "C01"], "crate": "core", "tier": "thorough",
        "harnesses": ["t03_recv_decision", "t03_recv_response_"], "jobs": 3, "timeout_s": 600, "mem_gb": 20,
        "functions": STRAT_FNS + ["TracerState::in_round"],
        "bounds": "the remaining 8 response-kind x payload x family combinations (all 18 reachable ones covered with the quick tier)",
    },
]
