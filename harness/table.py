"""Harness groups: one `cargo kani` invocation each.  See DESIGN.md 1.5.

fields: id, property (id or list), crate ('packet' = external crate /verif/kani/packet,
'core' = harnesses included into trippy-core through the cfg(kani) hooks), tier
('quick' groups run in both tiers, 'thorough' only in the thorough tier), harnesses (name
filters passed to --harness), jobs, timeout_s (per harness), mem_gb (per CBMC process),
cbmc_args, stubbing, functions (real functions encoded), bounds, stubs, assumptions.
"""

FS512 = ["--max-field-sensitivity-array-size", "512"]

PACKET_VIEWS = [
    "trippy_packet::ipv4::Ipv4Packet", "trippy_packet::ipv6::Ipv6Packet", "trippy_packet::udp::UdpPacket",
    "trippy_packet::tcp::TcpPacket", "trippy_packet::icmpv4::{IcmpPacket,EchoRequestPacket,EchoReplyPacket,"
    "TimeExceededPacket,DestinationUnreachablePacket}", "trippy_packet::icmpv6::{IcmpPacket,EchoRequestPacket,"
    "EchoReplyPacket,TimeExceededPacket,DestinationUnreachablePacket}",
    "trippy_packet::icmp_extension::{ExtensionsPacket,ExtensionHeaderPacket,ExtensionObjectPacket,"
    "MplsLabelStackPacket,MplsLabelStackMemberPacket}", "trippy_packet::buffer::Buffer::{get_bytes,set_bytes,read,write}",
]

GROUPS = [
    # ------------------------------------------------------------------ C12
    {
        "id": "C12.fields", "property": "C12", "crate": "packet", "harnesses": ["c12_"], "jobs": 16,
        "timeout_s": 300, "mem_gb": 8,
        "functions": PACKET_VIEWS + ["every set_*/get_* pair, new, new_view, set_payload, payload, minimum_packet_size"],
        "bounds": "buffer = minimum header + 4 (fields) / + 8 (constructors) / 68 bytes (IHL and data-offset payload "
                  "placement); setter argument over its full width (2^8/2^16/2^32/2^128) in one query; arbitrary "
                  "pre-existing buffer contents",
        "stubs": [],
        "assumptions": ["bit-range table in kani/packet/src/c12_fields.rs is the RFC oracle (RFC 791, 8200, 768, "
                        "9293+3540, 792, 4443, 4884, 4950)"],
    },
]
