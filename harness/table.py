"""Harness groups: one `cargo kani` invocation each.  See DESIGN.md 1.5.

fields: id, property (id or list), crate ('packet' = external crate /verif/kani/packet,
'core' = harnesses included into trippy-core through the cfg(kani) hooks), tier
('quick' groups run in both tiers, 'thorough' only in the thorough tier), harnesses (name
filters passed to --harness), jobs, timeout_s (per harness), mem_gb (per CBMC process),
cbmc_args, stubbing, functions (real functions encoded), bounds, stubs, assumptions.
"""

FS512 = ["--max-field-sensitivity-array-size", "512"]

PACKET_VIEWS = [
    "trippy_packet::ipv4::Ipv4Packet", "trippy_packet::ipv6::Ipv6Packet", "trippy_packet::udp::UdpPacket",
    "trippy_packet::tcp::TcpPacket", "trippy_packet::icmpv4::{IcmpPacket,EchoRequestPacket,EchoReplyPacket,"
    "TimeExceededPacket,DestinationUnreachablePacket}", "trippy_packet::icmpv6::{IcmpPacket,EchoRequestPacket,"
    "EchoReplyPacket,TimeExceededPacket,DestinationUnreachablePacket}",
    "trippy_packet::icmp_extension::{ExtensionsPacket,ExtensionHeaderPacket,ExtensionObjectPacket,"
    "MplsLabelStackPacket,MplsLabelStackMemberPacket}", "trippy_packet::buffer::Buffer::{get_bytes,set_bytes,read,write}",
]

GROUPS = [
    # ------------------------------------------------------------------ C12
    {
        "id": "C12.fields", "property": "C12", "crate": "packet", "harnesses": ["c12_"], "jobs": 16,
        "timeout_s": 300, "mem_gb": 8,
        "functions": PACKET_VIEWS + ["every set_*/get_* pair, new, new_view, set_payload, payload, minimum_packet_size"],
        "bounds": "buffer = minimum header + 4 (fields) / + 8 (constructors) / 68 bytes (IHL and data-offset payload "
                  "placement); setter argument over its full width (2^8/2^16/2^32/2^128) in one query; arbitrary "
                  "pre-existing buffer contents",
        "stubs": [],
        "assumptions": ["bit-range table in kani/packet/src/c12_fields.rs is the RFC oracle (RFC 791, 8200, 768, "
                        "9293+3540, 792, 4443, 4884, 4950)"],
    },
    # ------------------------------------------------------------------ C04 (packet views)
    {
        "id": "C04.accessors", "property": "C04", "crate": "packet", "tier": "quick-only", "harnesses": ["c04_acc_"],
        "jobs": 16, "timeout_s": 300, "mem_gb": 8,
        "functions": PACKET_VIEWS + ["every getter, payload, payload_raw, extension, get_options_raw(_mut), header, packet"],
        "bounds": "arbitrary buffer of 64 bytes, arbitrary view length in [minimum header, 64]; every IHL / data-offset / "
                  "payload-length / RFC 4884 length-byte value against every buffer length",
    },
    {
        "id": "C04.accessors.N160", "property": "C04", "crate": "packet", "tier": "thorough", "harnesses": ["c04_acc_"],
        "env": {"VERIF_THOROUGH": "1"}, "jobs": 16, "timeout_s": 1800, "mem_gb": 12,
        "functions": PACKET_VIEWS,
        "bounds": "arbitrary buffer of 160 bytes (> 128 + 8 + 4, so the RFC 4884 extension branch is live), arbitrary view "
                  "length in [minimum header, 160]",
    },
    {
        "id": "C04.iterators", "property": ["C04", "C14"], "crate": "packet", "harnesses": ["c04_iter_"], "jobs": 4,
        "timeout_s": 600, "mem_gb": 8,
        "functions": ["ExtensionObjectIter::next", "MplsLabelStackIter::next", "ExtensionsPacket::{header,objects}",
                      "ExtensionObjectPacket::{get_length,payload}", "MplsLabelStackMemberPacket::get_bos"],
        "bounds": "arbitrary extension structure / label stack of <= 32 bytes, arbitrary length; unwind 11 = 32/4 + 3: the "
                  "unwinding assertion is the termination proof within the bound",
    },
    {
        "id": "C14.split", "property": ["C04", "C14"], "crate": "packet", "harnesses": ["c14_split_"], "jobs": 8,
        "timeout_s": 600, "mem_gb": 8,
        "functions": ["extension_splitter::split", "icmpv4/icmpv6 TimeExceededPacket/DestinationUnreachablePacket::"
                      "{split_payload_extension,payload,payload_raw,extension,get_length}"],
        "bounds": "every length 0..=2040 x every ICMP body length 0..=1024 (content-independent: zero buffer); the four "
                  "real views for every length byte 0..=255 x every message length 8..=1032",
    },
    # ------------------------------------------------------------------ C13 (codec)
    {
        "id": "C13.codec.N64", "property": "C13", "crate": "packet", "tier": "quick-only", "harnesses": ["c13_"],
        "jobs": 16, "timeout_s": 600, "mem_gb": 8,
        "functions": ["checksum::{icmp_ipv4_checksum,icmp_ipv6_checksum,udp_ipv4_checksum,udp_ipv6_checksum,"
                      "tcp_ipv4_checksum,ipv4_header_checksum,sum_be_words,finalize_checksum,ipv4_checksum,ipv6_checksum}"],
        "bounds": "symbolic content AND symbolic length in [header, 64] (odd and even), symbolic address pairs; folding "
                  "lemma over all 2^32 partial sums",
        "assumptions": ["reference = plain RFC 1071 word loop in kani/packet/src/c13_checksum.rs with the checksum field "
                        "read as zero; 'sums to 0xFFFF after insertion' follows by the folding lemma c13_fold_lemma"],
    },
    {
        "id": "C13.codec.N256", "property": "C13", "crate": "packet", "tier": "thorough", "harnesses": ["c13_"],
        "env": {"VERIF_THOROUGH": "1"}, "jobs": 8, "timeout_s": 3000, "mem_gb": 16,
        "functions": ["checksum::* (as C13.codec.N64)"],
        "bounds": "symbolic content AND symbolic length in [header, 256], symbolic address pairs",
    },
    # ------------------------------------------------------------------ C14 (codec)
    {
        "id": "C14.objects", "property": "C14", "crate": "packet", "harnesses": ["c14_objects_", "c14_original_"],
        "jobs": 4, "timeout_s": 600, "mem_gb": 8,
        "functions": ["ExtensionsPacket::objects", "ExtensionObjectPacket::{set_*,get_*,payload}",
                      "MplsLabelStackPacket::members", "MplsLabelStackMemberPacket::{set_*,get_*}",
                      "TimeExceededPacket::{set_length,set_payload,payload,extension}"],
        "bounds": "<= 2 objects: one MPLS object with 1..=2 symbolic members, one opaque object with 0..=4 symbolic bytes; "
                  "original datagram of 136 symbolic bytes + 12-byte extension",
    },
]
