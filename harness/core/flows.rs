// Proof harnesses inside `flows` (sees `Flow::merge`).  Property: C15 (registry half).
use super::*;
use std::net::{IpAddr, Ipv4Addr};

const M: usize = 2;

/// A symbolic flow of <= 2 entries, also returned as plain data (tags: 0 = unknown, else 10.0.0.x).
fn any_flow() -> (Flow, [u8; M], usize) {
    let n: usize = kani::any();
    kani::assume(n <= M);
    let tags: [u8; M] = kani::any();
    let mut entries = Vec::with_capacity(M);
    if n >= 1 {
        entries.push(mk(tags[0]));
    }
    if n >= 2 {
        entries.push(mk(tags[1]));
    }
    (Flow { entries }, tags, n)
}

fn mk(tag: u8) -> FlowEntry {
    if tag == 0 {
        FlowEntry::Unknown
    } else {
        FlowEntry::Known(IpAddr::V4(Ipv4Addr::new(10, 0, 0, tag)))
    }
}

fn tag_of(e: &FlowEntry) -> u8 {
    match e {
        FlowEntry::Unknown => 0,
        FlowEntry::Known(IpAddr::V4(a)) => a.octets()[3],
        FlowEntry::Known(_) => 255,
    }
}

/// check / merge on one recorded flow and one observed flow (<= 2 entries each, symbolic):
/// NoMatch iff some position holds two different known addresses; after a merge the flow agrees
/// position by position with every address seen, and extends (never contradicts or forgets)
/// what was recorded.
#[kani::proof]
#[kani::unwind(6)]
fn c15_check_and_merge() {
    let (mut rec, rt, rn) = any_flow();
    let (seen, st, sn) = any_flow();
    let status = rec.check(&seen);
    let c0 = rn >= 1 && sn >= 1 && rt[0] != 0 && st[0] != 0 && rt[0] != st[0];
    let c1 = rn >= 2 && sn >= 2 && rt[1] != 0 && st[1] != 0 && rt[1] != st[1];
    assert!((status == CheckStatus::NoMatch) == (c0 || c1));
    let adds = (rn >= 1 && sn >= 1 && rt[0] == 0 && st[0] != 0) || (rn >= 2 && sn >= 2 && rt[1] == 0 && st[1] != 0);
    if !(c0 || c1) {
        assert!((status == CheckStatus::MatchMerge) == (sn > rn || adds));
    }
    if status == CheckStatus::MatchMerge {
        rec.merge(&seen);
        let len = rec.entries.len();
        assert!(len == if rn > sn { rn } else { sn }, "never shorter, long enough for the round");
        if len >= 1 {
            let t = tag_of(&rec.entries[0]);
            assert!(sn < 1 || st[0] == 0 || t == st[0], "agrees with the address seen at ttl 1");
            assert!(rn < 1 || rt[0] == 0 || t == rt[0], "keeps what was recorded at ttl 1");
        }
        if len >= 2 {
            let t = tag_of(&rec.entries[1]);
            assert!(sn < 2 || st[1] == 0 || t == st[1], "agrees with the address seen at ttl 2");
            assert!(rn < 2 || rt[1] == 0 || t == rt[1], "keeps what was recorded at ttl 2");
        }
    }
    kani::cover!(status == CheckStatus::MatchMerge && sn > rn, "longer path merged");
    kani::cover!(status == CheckStatus::NoMatch, "different path");
    kani::cover!(status == CheckStatus::Match, "plain match");
    std::mem::forget(rec);
    std::mem::forget(seen);
}

/// register on a registry holding one flow: first match wins and keeps its id; otherwise a new id
/// len + 1 is issued (dense from 1); the flow the round is attributed to agrees with the round.
#[kani::proof]
#[kani::unwind(6)]
fn c15_register() {
    let mut reg = FlowRegistry::new();
    let (f1, t1, n1) = any_flow();
    let id1 = reg.register(f1);
    assert!(id1 == FlowId(1), "identifiers are issued from 1");
    let (seen, st, sn) = any_flow();
    let c0 = n1 >= 1 && sn >= 1 && t1[0] != 0 && st[0] != 0 && t1[0] != st[0];
    let c1 = n1 >= 2 && sn >= 2 && t1[1] != 0 && st[1] != 0 && t1[1] != st[1];
    let id = reg.register(seen);
    if c0 || c1 {
        assert!(id == FlowId(2) && reg.flows().len() == 2, "no registered flow matches: new id = len + 1");
        let kept = &reg.flows()[0].0;
        assert!(kept.entries.len() == n1, "the other flow is untouched");
    } else {
        assert!(id == FlowId(1) && reg.flows().len() == 1, "a matching flow keeps its id; no flow is created");
    }
    let stored = &reg.flows()[(id.0 - 1) as usize];
    assert!(stored.1 == id);
    if sn >= 1 && st[0] != 0 {
        assert!(tag_of(&stored.0.entries[0]) == st[0], "attributed flow agrees with the round at ttl 1");
    }
    if sn >= 2 && st[1] != 0 {
        assert!(tag_of(&stored.0.entries[1]) == st[1], "attributed flow agrees with the round at ttl 2");
    }
    kani::cover!(id == FlowId(2), "second flow created");
    kani::cover!(id == FlowId(1) && sn > n1, "existing flow extended");
    std::mem::forget(reg);
}

/// from_hops maps None / Some(addr) to Unknown / Known(addr) in order.
#[kani::proof]
#[kani::unwind(5)]
fn c15_from_hops() {
    let a: [Option<u8>; 3] = [if kani::any() { Some(kani::any()) } else { None }, if kani::any() { Some(kani::any()) } else { None }, if kani::any() { Some(kani::any()) } else { None }];
    let f = Flow::from_hops(a.iter().map(|o| o.map(|x| IpAddr::V4(Ipv4Addr::new(10, 0, 0, x)))));
    assert!(f.entries.len() == 3);
    let mut i = 0;
    while i < 3 {
        match (a[i], f.entries[i]) {
            (None, FlowEntry::Unknown) => {}
            (Some(x), FlowEntry::Known(IpAddr::V4(ip))) => assert!(ip == Ipv4Addr::new(10, 0, 0, x)),
            _ => assert!(false, "from_hops order / mapping"),
        }
        i += 1;
    }
    std::mem::forget(f);
}

fn verif_reset_statics() {}
