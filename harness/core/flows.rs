// Proof harnesses inside `flows` (sees `Flow::merge`).  Property: C15 (registry half).
use super::*;
use std::net::{IpAddr, Ipv4Addr};

fn any_entry() -> FlowEntry {
    if kani::any() {
        FlowEntry::Unknown
    } else {
        FlowEntry::Known(IpAddr::V4(Ipv4Addr::new(10, 0, 0, kani::any())))
    }
}

fn any_flow(max: usize) -> Flow {
    let n: usize = kani::any();
    kani::assume(n <= max);
    let mut entries = Vec::with_capacity(3);
    let mut i = 0;
    while i < 3 {
        if i < n {
            entries.push(any_entry());
        }
        i += 1;
    }
    Flow { entries }
}

fn entry_eq(a: &FlowEntry, b: &FlowEntry) -> bool {
    match (a, b) {
        (FlowEntry::Unknown, FlowEntry::Unknown) => true,
        (FlowEntry::Known(IpAddr::V4(x)), FlowEntry::Known(IpAddr::V4(y))) => u32::from(*x) == u32::from(*y),
        _ => false,
    }
}

/// position-by-position agreement: every KNOWN entry of `seen` equals the recorded entry
fn agrees(recorded: &Flow, seen: &Flow) -> bool {
    let mut i = 0;
    let mut ok = true;
    while i < 3 {
        if i < seen.entries.len() {
            if let FlowEntry::Known(_) = seen.entries[i] {
                ok = ok && i < recorded.entries.len() && entry_eq(&recorded.entries[i], &seen.entries[i]);
            }
        }
        i += 1;
    }
    ok
}

/// `recorded_after` extends `recorded_before`: nothing known is forgotten or changed, never shorter
fn extends(before: &Flow, after: &Flow) -> bool {
    let mut i = 0;
    let mut ok = after.entries.len() >= before.entries.len();
    while i < 3 {
        if i < before.entries.len() {
            if let FlowEntry::Known(_) = before.entries[i] {
                ok = ok && i < after.entries.len() && entry_eq(&before.entries[i], &after.entries[i]);
            }
        }
        i += 1;
    }
    ok
}

/// check / merge on one recorded flow and one observed flow (<= 3 entries each, symbolic).
#[kani::proof]
#[kani::unwind(5)]
fn c15_check_and_merge() {
    let mut rec = any_flow(2);
    let before = Flow { entries: rec.entries.clone() };
    let seen = any_flow(3);
    let status = rec.check(&seen);
    // NoMatch iff some position holds two different known addresses
    let mut conflict = false;
    let mut i = 0;
    while i < 3 {
        if i < before.entries.len() && i < seen.entries.len() {
            if let (FlowEntry::Known(_), FlowEntry::Known(_)) = (before.entries[i], seen.entries[i]) {
                conflict = conflict || !entry_eq(&before.entries[i], &seen.entries[i]);
            }
        }
        i += 1;
    }
    assert!((status == CheckStatus::NoMatch) == conflict);
    if status == CheckStatus::Match {
        assert!(agrees(&before, &seen), "a plain match needs no new information");
    }
    if status == CheckStatus::MatchMerge {
        rec.merge(&seen);
        assert!(agrees(&rec, &seen), "after the merge the flow agrees with every address seen");
        assert!(extends(&before, &rec), "and extends, never contradicts or forgets, what was recorded");
    }
    kani::cover!(status == CheckStatus::MatchMerge && seen.entries.len() > before.entries.len(), "longer path merged");
    kani::cover!(status == CheckStatus::NoMatch, "different path");
    std::mem::forget(rec);
    std::mem::forget(before);
    std::mem::forget(seen);
}

/// register on a registry holding 0..=2 flows: the returned id's stored flow agrees with the round's
/// addresses; previously recorded flows are extended only; a new id is issued iff nothing matches,
/// and it is len + 1 (dense from 1); first match wins.
#[kani::proof]
#[kani::unwind(5)]
fn c15_register() {
    let mut reg = FlowRegistry::new();
    let f1 = any_flow(2);
    let f2 = any_flow(1);
    let n0: u8 = kani::any();
    kani::assume(n0 <= 2);
    let c1 = Flow { entries: f1.entries.clone() };
    let c2 = Flow { entries: f2.entries.clone() };
    if n0 >= 1 {
        let id = reg.register(f1);
        assert!(id == FlowId(1), "identifiers are issued from 1");
    }
    if n0 >= 2 {
        let id = reg.register(f2);
        assert!(id == FlowId(1) || id == FlowId(2), "densely");
    }
    let len0 = reg.flows().len();
    let snap0 = if len0 >= 1 { Some(Flow { entries: reg.flows()[0].0.entries.clone() }) } else { None };
    let snap1 = if len0 >= 2 { Some(Flow { entries: reg.flows()[1].0.entries.clone() }) } else { None };
    let seen = any_flow(2);
    let m0 = snap0.as_ref().map_or(false, |f| f.check(&seen) != CheckStatus::NoMatch);
    let m1 = snap1.as_ref().map_or(false, |f| f.check(&seen) != CheckStatus::NoMatch);
    let seen_copy = Flow { entries: seen.entries.clone() };
    let id = reg.register(seen);
    let len1 = reg.flows().len();
    if m0 {
        assert!(id == FlowId(1) && len1 == len0, "first match wins, no new flow");
    } else if m1 {
        assert!(id == FlowId(2) && len1 == len0);
    } else {
        assert!(len1 == len0 + 1 && id == FlowId(len1 as u64), "new id = number of flows (dense from 1)");
    }
    let stored = &reg.flows()[(id.0 - 1) as usize];
    assert!(stored.1 == id);
    assert!(agrees(&stored.0, &seen_copy), "the flow the round is attributed to agrees with every address seen");
    if let Some(s) = &snap0 {
        assert!(extends(s, &reg.flows()[0].0), "flow 1 only ever extended");
    }
    if let Some(s) = &snap1 {
        assert!(extends(s, &reg.flows()[1].0), "flow 2 only ever extended");
    }
    kani::cover!(len0 == 2 && !m0 && m1, "second flow matched");
    kani::cover!(len0 == 2 && len1 == 3, "third flow created");
    std::mem::forget(reg);
    std::mem::forget((c1, c2, snap0, snap1, seen_copy));
}

/// from_hops maps None / Some(addr) to Unknown / Known(addr) in order.
#[kani::proof]
#[kani::unwind(5)]
fn c15_from_hops() {
    let a: [Option<u8>; 3] = [if kani::any() { Some(kani::any()) } else { None }, if kani::any() { Some(kani::any()) } else { None }, if kani::any() { Some(kani::any()) } else { None }];
    let f = Flow::from_hops(a.iter().map(|o| o.map(|x| IpAddr::V4(Ipv4Addr::new(10, 0, 0, x)))));
    assert!(f.entries.len() == 3);
    let mut i = 0;
    while i < 3 {
        match (a[i], f.entries[i]) {
            (None, FlowEntry::Unknown) => {}
            (Some(x), FlowEntry::Known(IpAddr::V4(ip))) => assert!(ip == Ipv4Addr::new(10, 0, 0, x)),
            _ => assert!(false, "from_hops order / mapping"),
        }
        i += 1;
    }
    std::mem::forget(f);
}
