// Proof harnesses over trippy-core's IPv6 wire layer (child module of `net::ipv6`).
// Properties: C02 (extract), C04 (receive path), C07 (Dublin payload slice), C11 (dispatch), C13 (Paris).
use super::*;
use crate::net::socket::Socket;

include!(concat!(env!("TRIPPY_VERIF_HARNESS"), "/common.rs"));

mod sock {
    include!(concat!(env!("TRIPPY_VERIF_HARNESS"), "/sockets.rs"));
}
use sock::{sockstate, HSock};

fn be16(b: &[u8], off: usize) -> u16 {
    (u16::from(b[off]) << 8) | u16::from(b[off + 1])
}

fn ones_sum(b: &[u8], from: usize, to: usize, max: usize) -> u32 {
    let mut s = 0u32;
    let mut i = 0;
    while i < max {
        let p = from + i;
        if p < to {
            let hi = u32::from(b[p]);
            let lo = if p + 1 < to { u32::from(b[p + 1]) } else { 0 };
            s += (hi << 8) | lo;
        }
        i += 2;
    }
    s
}

fn fold(mut s: u32) -> u16 {
    s = (s & 0xffff) + (s >> 16);
    s = (s & 0xffff) + (s >> 16);
    s = (s & 0xffff) + (s >> 16);
    s as u16
}

fn v6sum(a: u128) -> u32 {
    let mut s = 0u32;
    let mut i = 0;
    while i < 8 {
        s += ((a >> (16 * i)) & 0xffff) as u32;
        i += 1;
    }
    s
}

#[derive(Clone, Copy)]
struct Expect {
    active: bool,
    size: usize, // bytes handed to send_to (no IPv6 header: the kernel builds it)
    icmp: bool,
    src: u128,
    dst: u128,
    icmp_id: u16,
    icmp_seq: u16,
    sport: u16,
    dport: u16,
    paris_seq: Option<u16>,
    dublin: bool,
    pattern: u8,
}

static mut EXPECT: Expect = Expect {
    active: false, size: 0, icmp: false, src: 0, dst: 0, icmp_id: 0, icmp_seq: 0, sport: 0, dport: 0, paris_seq: None,
    dublin: false, pattern: 0,
};

const MAXCHK: usize = 40;

/// Length-only expectation (symbolic lengths): the Dublin/IPv6 wire contract "UDP payload length =
/// marker + (sequence - initial sequence)" for EVERY offset, not just the representatives.
static mut EXPECT_LEN: Option<usize> = None;

fn on_send(b: &[u8]) {
    if let Some(n) = unsafe { EXPECT_LEN } {
        assert!(b.len() == n, "Dublin/IPv6: datagram length = UDP header + marker + sequence offset");
        assert!(usize::from(be16(b, 4)) == n, "Dublin/IPv6: UDP length field = datagram length");
    }
    let e = unsafe { EXPECT };
    if !e.active {
        return;
    }
    assert!(b.len() == e.size, "datagram size");
    if e.icmp {
        // ICMPv6 echo request (RFC 4443)
        assert!(b[0] == 128 && b[1] == 0, "echo request");
        assert!(be16(b, 4) == e.icmp_id, "trace identifier");
        assert!(be16(b, 6) == e.icmp_seq, "sequence in the ICMP sequence field");
        let pseudo = v6sum(e.src) + v6sum(e.dst) + 58 + e.size as u32;
        assert!(fold(pseudo + ones_sum(b, 0, e.size, MAXCHK)) == 0xffff, "ICMPv6 checksum verifies");
        let mut i = 8;
        while i < 8 + MAXCHK {
            if i < e.size {
                assert!(b[i] == e.pattern, "payload is the configured pattern");
            }
            i += 1;
        }
    } else {
        assert!(be16(b, 0) == e.sport && be16(b, 2) == e.dport, "UDP ports");
        assert!(usize::from(be16(b, 4)) == e.size, "UDP length consistent");
        let pseudo = v6sum(e.src) + v6sum(e.dst) + 17 + e.size as u32;
        assert!(fold(pseudo + ones_sum(b, 0, e.size, MAXCHK)) == 0xffff, "UDP checksum verifies");
        if let Some(seq) = e.paris_seq {
            assert!(be16(b, 6) == seq, "Paris: the UDP checksum field carries the sequence");
        } else if e.dublin {
            assert!(b[8] == b't' && b[9] == b'r' && b[10] == b'i' && b[11] == b'p' && b[12] == b'p' && b[13] == b'y', "Dublin marker");
        } else {
            let mut i = 8;
            while i < 8 + MAXCHK {
                if i < e.size {
                    assert!(b[i] == e.pattern, "payload is the configured pattern");
                }
                i += 1;
            }
        }
    }
}

fn any_ipv6_cfg(protocol: Protocol, size: u16, ext: bool) -> Ipv6 {
    Ipv6 {
        src_addr: any_ipv6(),
        dest_addr: any_ipv6(),
        packet_size: PacketSize(size),
        // symbolic pattern in the thorough tier, for the dispatch-content harnesses only (sizes up to 64)
        payload_pattern: PayloadPattern(if option_env!("VERIF_THOROUGH").is_some() && size >= 28 && size <= 64 { kani::any() } else { 0xA5 }),
        privilege_mode: PrivilegeMode::Privileged,
        protocol,
        icmp_extension_mode: if ext { IcmpExtensionParseMode::Enabled } else { IcmpExtensionParseMode::Disabled },
        initial_sequence: Sequence(kani::any()),
    }
}

fn any_probe(flags: Flags) -> Probe {
    Probe::new(
        Sequence(kani::any()),
        TraceId(kani::any()),
        Port(kani::any()),
        Port(kani::any()),
        TimeToLive(kani::any()),
        RoundId(0),
        UNIX_EPOCH,
        flags,
    )
}

// =========================================================================== C11: dispatch

fn dispatch_icmp(size: u16) {
    let ipv6 = any_ipv6_cfg(Protocol::Icmp, size, false);
    let probe = any_probe(Flags::empty());
    unsafe {
        EXPECT = Expect {
            active: true, size: usize::from(size) - 40, icmp: true, src: u128::from(ipv6.src_addr),
            dst: u128::from(ipv6.dest_addr), icmp_id: probe.identifier.0, icmp_seq: probe.sequence.0, sport: 0,
            dport: 0, paris_seq: None, dublin: false, pattern: ipv6.payload_pattern.0,
        };
    }
    let mut s = HSock;
    let (dst, ttl) = (ipv6.dest_addr, probe.ttl.0);
    let r = ipv6.dispatch_icmp_probe(&mut s, probe);
    assert!(r.is_ok());
    unsafe {
        assert!(sockstate::SEND_CALLS == 1, "exactly one datagram per probe");
        assert!(sockstate::HOPS_SET == Some(ttl), "hop limit = probe ttl");
        assert!(sockstate::SEND_ADDR == Some(SocketAddr::new(IpAddr::V6(dst), 0)), "sent to the target");
    }
}

#[kani::proof]
#[kani::unwind(45)]
fn c11_v6_dispatch_icmp_min() {
    dispatch_icmp(48);
}
#[kani::proof]
#[kani::unwind(45)]
fn c11_v6_dispatch_icmp_odd() {
    dispatch_icmp(49);
}
#[kani::proof]
#[kani::unwind(45)]
fn c11_v6_dispatch_icmp_57() {
    dispatch_icmp(57);
}

/// UDP (privileged): mode 0 classic, 1 Paris, 2 Dublin (payload = marker + (sequence - initial) bytes).
fn dispatch_udp(size: u16, mode: u8, dublin_len: u16) {
    let mut ipv6 = any_ipv6_cfg(Protocol::Udp, size, false);
    if mode == 2 {
        // the Dublin payload is the marker plus padding, the pattern is not asserted on: keep it concrete in
        // both tiers (this query runs without field sensitivity and is the heaviest of the wire layer)
        ipv6.payload_pattern = PayloadPattern(0xA5);
    }
    let mut probe = any_probe(match mode {
        1 => Flags::PARIS_CHECKSUM,
        2 => Flags::DUBLIN_IPV6_PAYLOAD_LENGTH,
        _ => Flags::empty(),
    });
    if mode == 2 {
        // the state machine guarantees sequence - initial + 6 <= 976 (c07_next_probe_sym_v6); here the
        // payload length is a concrete representative so the copy loops have a constant bound
        kani::assume(ipv6.initial_sequence.0 <= u16::MAX - dublin_len);
        probe.sequence = Sequence(ipv6.initial_sequence.0 + dublin_len);
    }
    let sent = match mode {
        1 => 10,
        2 => 8 + 6 + usize::from(dublin_len),
        _ => usize::from(size) - 40,
    };
    unsafe {
        EXPECT = Expect {
            active: true, size: sent, icmp: false, src: u128::from(ipv6.src_addr), dst: u128::from(ipv6.dest_addr),
            icmp_id: 0, icmp_seq: 0, sport: probe.src_port.0, dport: probe.dest_port.0,
            paris_seq: if mode == 1 { Some(probe.sequence.0) } else { None }, dublin: mode == 2,
            pattern: ipv6.payload_pattern.0,
        };
    }
    let mut s = HSock;
    let (dst, ttl) = (ipv6.dest_addr, probe.ttl.0);
    let r = ipv6.dispatch_udp_probe(&mut s, probe);
    assert!(r.is_ok());
    unsafe {
        assert!(sockstate::SEND_CALLS == 1, "exactly one datagram per probe");
        assert!(sockstate::HOPS_SET == Some(ttl), "hop limit = probe ttl");
        assert!(sockstate::SEND_ADDR == Some(SocketAddr::new(IpAddr::V6(dst), 0)), "sent to the target");
    }
}

#[kani::proof]
#[kani::unwind(45)]
fn c11_v6_dispatch_udp_min() {
    dispatch_udp(48, 0, 0);
}
#[kani::proof]
#[kani::unwind(45)]
fn c11_v6_dispatch_udp_57() {
    dispatch_udp(57, 0, 0);
}
#[kani::proof]
#[kani::unwind(45)]
fn c13_v6_dispatch_udp_paris() {
    dispatch_udp(57, 1, 0);
}
#[kani::proof]
#[kani::unwind(45)]
fn c11_v6_dispatch_udp_dublin_0() {
    dispatch_udp(57, 2, 0);
}
#[kani::proof]
#[kani::unwind(45)]
fn c11_v6_dispatch_udp_dublin_21() {
    dispatch_udp(57, 2, 21);
}

/// C07: the Dublin/IPv6 payload slice `[..(sequence - initial) + 6]` taken from the 976-byte payload
/// buffer is in range for every sequence offset the state machine can issue (0..=970), and out of
/// the stated range the slice is the only thing that can fail.  The checksum is cut (its own
/// correctness is C13) so that the length can stay symbolic.
fn stub_udp6_ck(_data: &[u8], _src: Ipv6Addr, _dst: Ipv6Addr) -> u16 {
    kani::any()
}

#[kani::proof]
#[kani::unwind(3)]
#[kani::stub(trippy_packet::checksum::udp_ipv6_checksum, stub_udp6_ck)]
fn c07_v6_dublin_payload_slice_in_range() {
    let ipv6 = any_ipv6_cfg(Protocol::Udp, 57, false);
    let mut probe = any_probe(Flags::DUBLIN_IPV6_PAYLOAD_LENGTH);
    let off: u16 = kani::any();
    kani::assume(off <= 970 && ipv6.initial_sequence.0 <= u16::MAX - off);
    probe.sequence = Sequence(ipv6.initial_sequence.0 + off);
    unsafe { EXPECT_LEN = Some(8 + 6 + usize::from(off)) };
    let mut s = HSock;
    let r = ipv6.dispatch_udp_probe(&mut s, probe);
    assert!(r.is_ok());
    assert!(unsafe { sockstate::SEND_CALLS } == 1, "exactly one datagram");
    kani::cover!(off == 970, "largest payload");
    kani::cover!(off == 300, "an offset above 255");
}

#[kani::proof]
#[kani::unwind(34)]
fn c11_v6_size_guards() {
    let size: u16 = kani::any();
    kani::assume(size < 48 || size > 1024);
    let udp: bool = kani::any();
    let mut ipv6 = any_ipv6_cfg(if udp { Protocol::Udp } else { Protocol::Icmp }, size, false);
    // the guard does not depend on the pattern; concrete in both tiers (symbolic size x symbolic pattern runs out of memory)
    ipv6.payload_pattern = PayloadPattern(0xA5);
    let probe = any_probe(Flags::empty());
    let mut s = HSock;
    let r = if udp { ipv6.dispatch_udp_probe(&mut s, probe) } else { ipv6.dispatch_icmp_probe(&mut s, probe) };
    match r {
        Err(Error::InvalidPacketSize(n)) => assert!(n == usize::from(size)),
        _ => assert!(false, "size guard"),
    }
    assert!(unsafe { sockstate::SEND_CALLS } == 0);
    kani::cover!(size == 47, "just below");
    kani::cover!(size == 1025, "just above");
}

#[kani::proof]
#[kani::unwind(34)]
fn c11_v6_dispatch_tcp() {
    let ipv6 = any_ipv6_cfg(Protocol::Tcp, 48, false);
    let probe = any_probe(Flags::empty());
    let (b, c): (u8, u8) = kani::any();
    kani::assume(b <= 7 && c <= 7);
    unsafe {
        sockstate::BIND_OUTCOME = b;
        sockstate::CONNECT_OUTCOME = c;
    }
    let r = ipv6.dispatch_tcp_probe::<HSock>(&probe);
    let local = SocketAddr::new(IpAddr::V6(ipv6.src_addr), probe.src_port.0);
    let remote = SocketAddr::new(IpAddr::V6(ipv6.dest_addr), probe.dest_port.0);
    unsafe {
        assert!(sockstate::BIND_ADDR == Some(local), "bound to source address and source port");
    }
    let bind_ok = b == 0 || b == 5;
    if !bind_ok {
        match (b, &r) {
            (1, Err(Error::AddressInUse(a))) => assert!(*a == local),
            (_, Err(Error::IoError(_))) => assert!(b != 1),
            _ => assert!(false, "bind error mapping"),
        }
    } else {
        unsafe {
            assert!(sockstate::HOPS_SET == Some(probe.ttl.0), "hop limit = probe ttl");
            assert!(sockstate::CONNECT_ADDR == Some(remote), "connects to the target and destination port");
        }
        match (c, &r) {
            (0 | 5, Ok(_)) => {}
            (1, Err(Error::AddressInUse(a))) => assert!(*a == remote),
            (_, Err(Error::IoError(_))) => assert!(c != 0 && c != 1 && c != 5),
            _ => assert!(false, "connect error mapping"),
        }
    }
    kani::cover!(r.is_ok(), "connected");
    std::mem::forget(r);
}

// =========================================================================== C04 / C01: the receive path

fn arm_read() -> usize {
    let bytes: [u8; sockstate::RBUF] = kani::any();
    let len: usize = kani::any();
    kani::assume(len <= sockstate::RBUF);
    unsafe {
        sockstate::READ_BYTES = bytes;
        sockstate::READ_LEN = len;
        sockstate::READ_ERR = 0;
        sockstate::RECV_ADDR_KIND = if kani::any() { 0 } else { 1 };
        sockstate::RECV_ADDR = kani::any();
    }
    len
}

fn recv_no_panic(protocol: Protocol, ext: bool) {
    let ipv6 = any_ipv6_cfg(protocol, 84, ext);
    let len = arm_read();
    let now_s: u32 = kani::any();
    clock::set(0, u64::from(now_s), 0);
    clock::set(1, u64::from(now_s), 0);
    clock::set(2, u64::from(now_s), 0);
    let mut s = HSock;
    let r = ipv6.recv_icmp_probe(&mut s);
    let b = unsafe { sockstate::READ_BYTES };
    if let Ok(Some(resp)) = &r {
        let d = resp.data();
        assert!(unsafe { sockstate::RECV_ADDR_KIND } == 0);
        assert!(d.addr == IpAddr::V6(Ipv6Addr::from(unsafe { sockstate::RECV_ADDR })), "responder = recv_from address");
        assert!(d.recv == clock::mk(u64::from(now_s), 0), "receive time = clock reading taken in the call");
        match resp {
            Response::TimeExceeded(_, code, _) => assert!(b[0] == 3 && code.0 == b[1] && code.0 == 0),
            Response::DestinationUnreachable(_, code, _) => assert!(b[0] == 1 && code.0 == b[1]),
            Response::EchoReply(_, code) => assert!(b[0] == 129 && code.0 == b[1] && matches!(protocol, Protocol::Icmp)),
            _ => assert!(false, "no TCP responses on the ICMP path"),
        }
    }
    kani::cover!(matches!(r, Ok(Some(Response::TimeExceeded(..)))), "time exceeded recognised");
    kani::cover!(matches!(r, Ok(Some(Response::DestinationUnreachable(..)))), "destination unreachable recognised");
    kani::cover!(matches!(r, Err(_)), "malformed datagram rejected with an error value");
    kani::cover!(matches!(r, Ok(None)) && len >= 8, "unrelated datagram ignored");
    std::mem::forget(r);
}

#[kani::proof]
#[kani::unwind(100)]
#[kani::stub(std::time::SystemTime::now, clock::now_stub)]
fn c04_v6_recv_icmp() {
    recv_no_panic(Protocol::Icmp, false);
}
#[kani::proof]
#[kani::unwind(100)]
#[kani::stub(std::time::SystemTime::now, clock::now_stub)]
fn c04_v6_recv_udp() {
    recv_no_panic(Protocol::Udp, false);
}
#[kani::proof]
#[kani::unwind(100)]
#[kani::stub(std::time::SystemTime::now, clock::now_stub)]
fn c04_v6_recv_tcp() {
    recv_no_panic(Protocol::Tcp, false);
}

// =========================================================================== C02: parse honours the wire contract

const QN: usize = if option_env!("VERIF_THOROUGH").is_some() { 80 } else { 64 };

fn extract_contract(protocol: Protocol) {
    let ipv6 = any_ipv6_cfg(protocol, 84, false);
    let q: [u8; QN] = kani::any();
    let len: usize = kani::any();
    // "as much of the invoking packet as fits": header + at least the first 8 octets of the payload
    // (a TCP quotation shorter than the 20-byte TCP header is rejected with an error value, below)
    kani::assume(len >= 48 && len <= QN);
    let pkt = Ipv6Packet::new_view(&q[..len]).unwrap();
    let r = ipv6.extract_probe_proto_resp(&pkt);
    let dest = IpAddr::V6(Ipv6Addr::from(u128::from_be_bytes([
        q[24], q[25], q[26], q[27], q[28], q[29], q[30], q[31], q[32], q[33], q[34], q[35], q[36], q[37], q[38], q[39],
    ])));
    let tc = ((q[0] & 0xf) << 4) | (q[1] >> 4);
    let plen = usize::from(be16(&q, 4));
    let avail = if 40 + plen < len { plen } else { len - 40 }; // nested payload bytes visible to the parser
    let want_proto = match protocol {
        Protocol::Icmp => 58,
        Protocol::Udp => 17,
        Protocol::Tcp => 6,
    };
    match r {
        Ok(Some(ProtocolResponse::Icmp(i))) => {
            assert!(q[6] == 58 && want_proto == 58);
            assert!(i.identifier == be16(&q, 44) && i.sequence == be16(&q, 46));
            assert!(i.tos == Some(TypeOfService(tc)));
        }
        Ok(Some(ProtocolResponse::Udp(u))) => {
            assert!(q[6] == 17 && want_proto == 17);
            assert!(u.src_port == be16(&q, 40) && u.dest_port == be16(&q, 42));
            assert!(u.actual_udp_checksum == be16(&q, 46));
            let magic = avail >= 14 && q[48] == b't' && q[49] == b'r' && q[50] == b'i' && q[51] == b'p' && q[52] == b'p' && q[53] == b'y';
            assert!(u.has_magic == magic, "Dublin marker detected exactly when present");
            let l = be16(&q, 44).saturating_sub(8);
            assert!(u.payload_len == if magic { l.saturating_sub(6) } else { l });
            assert!(u.dest_addr == dest && u.tos == Some(TypeOfService(tc)));
        }
        Ok(Some(ProtocolResponse::Tcp(t))) => {
            assert!(q[6] == 6 && want_proto == 6);
            assert!(t.src_port == be16(&q, 40) && t.dest_port == be16(&q, 42));
            assert!(t.dest_addr == dest && t.tos == Some(TypeOfService(tc)));
        }
        Ok(None) => assert!(q[6] != want_proto, "a quotation of another protocol is never accepted"),
        Err(_) => {
            // only a quotation too short for the transport header is an error value
            let need = if want_proto == 6 { 20 } else { 8 };
            assert!(q[6] == want_proto && avail < need);
        }
    }
    kani::cover!(!matches!(protocol, Protocol::Udp) || (q[6] == 17 && q[48] == b't' && q[53] == b'y' && avail >= 14), "marker");
    kani::cover!(q[6] == want_proto && len == QN, "long quotation");
    kani::cover!(q[6] != want_proto, "other protocol");
}

#[kani::proof]
#[kani::unwind(24)]
fn c02_v6_extract_icmp() {
    extract_contract(Protocol::Icmp);
}
#[kani::proof]
#[kani::unwind(24)]
fn c02_v6_extract_udp() {
    extract_contract(Protocol::Udp);
}
#[kani::proof]
#[kani::unwind(24)]
fn c02_v6_extract_tcp() {
    extract_contract(Protocol::Tcp);
}

/// Reset harness-side statics between native witness-search trials.
fn verif_reset_statics() {
    sock::reset();
    unsafe {
        EXPECT.active = false;
        EXPECT_LEN = None;
    }
    clock::set(0, 0, 0);
}

/// Unprivileged UDP over IPv6: bound to source address / source port, hop limit = probe ttl, payload of
/// (packet size - 48) bytes to the target and the probe's destination port.
#[kani::proof]
#[kani::unwind(45)]
fn c11_v6_dispatch_udp_unprivileged() {
    let mut ipv6 = any_ipv6_cfg(Protocol::Udp, 57, false);
    ipv6.privilege_mode = PrivilegeMode::Unprivileged;
    let probe = any_probe(Flags::empty());
    unsafe { EXPECT.active = false };
    let mut s = HSock;
    let (ttl, sp, dp) = (probe.ttl.0, probe.src_port.0, probe.dest_port.0);
    let r = ipv6.dispatch_udp_probe(&mut s, probe);
    assert!(r.is_ok());
    let local = SocketAddr::new(IpAddr::V6(ipv6.src_addr), sp);
    let remote = SocketAddr::new(IpAddr::V6(ipv6.dest_addr), dp);
    unsafe {
        assert!(sockstate::NEW_CALLS == 1);
        assert!(sockstate::BIND_ADDR == Some(local), "bound to source address and source port");
        assert!(sockstate::HOPS_SET == Some(ttl), "hop limit = probe ttl");
        assert!(sockstate::SEND_CALLS == 1 && sockstate::SEND_ADDR == Some(remote), "sent to the target and destination port");
    }
}
