// Shared helpers, textually included into every harness module (see DESIGN 1.2-1.4).
#[allow(unused_imports)]
use crate::config::{ChannelConfig, StrategyConfig};
#[allow(unused_imports)]
use crate::constants::{MAX_INITIAL_SEQUENCE, MAX_SEQUENCE_PER_ROUND, MAX_TTL};
#[allow(unused_imports)]
use crate::types::{
    Checksum, Flags, MaxInflight, MaxRounds, PacketSize, PayloadPattern, Port, RoundId, Sequence, TimeToLive,
    TraceId, TypeOfService,
};
#[allow(unused_imports)]
use crate::{IcmpExtensionParseMode, MultipathStrategy, PortDirection, PrivilegeMode, Protocol};
#[allow(unused_imports)]
use std::net::{IpAddr, Ipv4Addr, Ipv6Addr, SocketAddr, SocketAddrV4, SocketAddrV6};
#[allow(unused_imports)]
use std::time::{Duration, SystemTime, UNIX_EPOCH};

/// Symbolic clock: the `SystemTime::now` stub returns these instants in order (call 0, 1, 2+).
/// (`static mut`: Kani 0.68 does not support the atomic intrinsics; harnesses are single-threaded.)
#[allow(dead_code, static_mut_refs)]
pub(super) mod clock {
    use std::time::{Duration, SystemTime, UNIX_EPOCH};
    static mut IDX: usize = 0;
    static mut S: [u64; 3] = [0; 3];
    static mut N: [u32; 3] = [0; 3];

    pub fn mk(secs: u64, nanos: u32) -> SystemTime {
        UNIX_EPOCH + Duration::new(secs, nanos)
    }
    /// Arm reading `i` of the clock.
    pub fn set(i: usize, secs: u64, nanos: u32) {
        unsafe {
            if i == 0 {
                IDX = 0; // readings are counted from the moment the harness arms the clock
            }
            S[i] = secs;
            N[i] = nanos;
        }
    }
    pub fn calls() -> usize {
        unsafe { IDX }
    }
    /// The next armed reading as (seconds, nanoseconds); advances the reading index.
    pub fn next_raw() -> (u64, u32) {
        unsafe {
            let i = IDX;
            IDX += 1;
            let k = if i > 2 { 2 } else { i };
            (S[k], N[k])
        }
    }
    /// Replacement for `SystemTime::now` (#[kani::stub]).
    pub fn now_stub() -> SystemTime {
        let (s, n) = next_raw();
        mk(s, n)
    }
}

/// An arbitrary instant: seconds < 2^32 after the epoch, any nanosecond.
#[allow(dead_code)]
fn any_time() -> (SystemTime, u64, u32) {
    let s: u32 = kani::any();
    let n: u32 = kani::any();
    kani::assume(n < 1_000_000_000);
    (clock::mk(u64::from(s), n), u64::from(s), n)
}

#[allow(dead_code)]
fn any_duration() -> Duration {
    let s: u32 = kani::any();
    let n: u32 = kani::any();
    kani::assume(n < 1_000_000_000);
    Duration::new(u64::from(s), n)
}

#[allow(dead_code)]
fn any_ipv4() -> Ipv4Addr {
    Ipv4Addr::from(kani::any::<u32>())
}

#[allow(dead_code)]
fn any_ipv6() -> Ipv6Addr {
    Ipv6Addr::from(kani::any::<u128>())
}

#[allow(dead_code)]
fn any_ip(v6: bool) -> IpAddr {
    if v6 {
        IpAddr::V6(any_ipv6())
    } else {
        IpAddr::V4(any_ipv4())
    }
}

#[allow(dead_code)]
fn any_protocol() -> Protocol {
    match kani::any::<u8>() % 3 {
        0 => Protocol::Icmp,
        1 => Protocol::Udp,
        _ => Protocol::Tcp,
    }
}

#[allow(dead_code)]
fn any_multipath() -> MultipathStrategy {
    match kani::any::<u8>() % 3 {
        0 => MultipathStrategy::Classic,
        1 => MultipathStrategy::Paris,
        _ => MultipathStrategy::Dublin,
    }
}

#[allow(dead_code)]
fn any_port_direction() -> PortDirection {
    match kani::any::<u8>() % 4 {
        0 => PortDirection::None,
        1 => PortDirection::FixedSrc(Port(kani::any())),
        2 => PortDirection::FixedDest(Port(kani::any())),
        _ => PortDirection::FixedBoth(Port(kani::any()), Port(kani::any())),
    }
}

/// Every field arbitrary (durations zero: they are only read by `update_round`, which has its
/// own harnesses with symbolic durations).
#[allow(dead_code)]
fn any_strategy_config(v6: bool) -> StrategyConfig {
    StrategyConfig {
        target_addr: any_ip(v6),
        protocol: any_protocol(),
        trace_identifier: TraceId(kani::any()),
        max_rounds: None,
        first_ttl: TimeToLive(kani::any()),
        max_ttl: TimeToLive(kani::any()),
        grace_duration: Duration::ZERO,
        max_inflight: MaxInflight(kani::any()),
        initial_sequence: Sequence(kani::any()),
        multipath_strategy: any_multipath(),
        port_direction: any_port_direction(),
        min_round_duration: Duration::ZERO,
        max_round_duration: Duration::ZERO,
    }
}

/// The configurations `Builder::build` accepts (its validation, restated; the harness
/// `c16_builder_accepts_matches` in builder.rs checks this predicate against the real
/// `Builder::build`), plus the CLI layer's guarantees the property statement names
/// (1 <= first-ttl <= max-ttl <= 254, max-inflight >= 1).
#[allow(dead_code)]
fn accepted(c: &StrategyConfig) -> bool {
    let ports_ok = match (c.protocol, c.multipath_strategy, c.port_direction) {
        (Protocol::Icmp, _, _) => true,
        (_, _, PortDirection::None) => false,
        (Protocol::Udp, MultipathStrategy::Classic, PortDirection::FixedBoth(_, _)) => false,
        (Protocol::Tcp, _, PortDirection::FixedBoth(_, _)) => false,
        _ => true,
    };
    ports_ok
        && c.first_ttl.0 >= 1
        && c.first_ttl.0 <= c.max_ttl.0
        && c.max_ttl.0 <= MAX_TTL
        && c.max_inflight.0 >= 1
        && c.initial_sequence.0 <= MAX_INITIAL_SEQUENCE
}

/// Exactly what `Builder::build` accepts (after the F11 repair), restated; the harness
/// `c16_builder_rejects_unsupported` (builder.rs) checks the real `build()` rejects the complement.
#[allow(dead_code)]
fn builder_accepts(c: &StrategyConfig) -> bool {
    let ports_ok = match (c.protocol, c.multipath_strategy, c.port_direction) {
        (Protocol::Icmp, _, _) => true,
        (_, _, PortDirection::None) => false,
        (Protocol::Udp, MultipathStrategy::Classic, PortDirection::FixedBoth(_, _)) => false,
        (Protocol::Tcp, _, PortDirection::FixedBoth(_, _)) => false,
        _ => true,
    };
    ports_ok && c.first_ttl.0 >= 1 && c.first_ttl.0 <= MAX_TTL && c.max_ttl.0 <= MAX_TTL
        && c.initial_sequence.0 <= MAX_INITIAL_SEQUENCE
}
