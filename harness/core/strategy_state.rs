// Proof harnesses over trippy-core's tracing state machine (child module of `strategy::state`,
// so `TracerState`'s private fields and `Strategy`'s private methods are visible).
// Properties: C01 C02 C03 C06 C07 C08 C09 C10 C16 C19.
use super::*;
use crate::error::{Error, IoError, IoOperation};
use crate::net::Network;
use crate::probe::{
    Extensions, IcmpPacketCode, IcmpPacketType, IcmpProtocolResponse, Probe, ProbeComplete, ProbeFailed,
    ProbeStatus, ProtocolResponse, Response, ResponseData, TcpProtocolResponse, UdpProtocolResponse,
};
use crate::strategy::{CompletionReason, ProtocolStrategyResponse, Round, Strategy};

include!(concat!(env!("TRIPPY_VERIF_HARNESS"), "/common.rs"));

/// Native replay support: concrete playback ignores `#[kani::stub]`, so when a counterexample of a
/// clock-dependent harness is replayed as an ordinary test the armed clock readings are served by
/// interposing libc's `clock_gettime` (CLOCK_REALTIME = the harness clock, in the same order the
/// stub serves them; any other clock id = a slowly increasing fake).  Unreachable under
/// verification for harnesses that stub `SystemTime::now`.
#[no_mangle]
pub unsafe extern "C" fn clock_gettime(clk_id: i32, tp: *mut i64) -> i32 {
    static mut MONO: i64 = 1_000;
    if clk_id == 0 {
        let (s, n) = clock::next_raw();
        *tp = s as i64;
        *tp.add(1) = i64::from(n);
    } else {
        MONO += 1;
        *tp = MONO;
        *tp.add(1) = 0;
    }
    0
}

const NOTSENT: ProbeStatus = ProbeStatus::NotSent;
const BUF: u16 = 512;

/// A `TracerState` with every scalar field symbolic and an all-`NotSent` buffer (struct literal:
/// `TracerState::new`'s `from_fn` costs 250 s of symbolic execution, see DESIGN 1.1).
fn any_state(config: StrategyConfig) -> TracerState {
    TracerState {
        config,
        buffer: [NOTSENT; 512],
        sequence: Sequence(kani::any()),
        round_sequence: Sequence(kani::any()),
        ttl: TimeToLive(kani::any()),
        round: RoundId(kani::any::<u32>() as usize),
        round_start: UNIX_EPOCH,
        target_found: kani::any(),
        max_received_ttl: if kani::any() { Some(TimeToLive(kani::any())) } else { None },
        target_ttl: if kani::any() { Some(TimeToLive(kani::any())) } else { None },
        received_time: None,
    }
}

/// As `any_state`, but at the CONCRETE window position (`round_sequence = rs`, `sequence = rs + k`):
/// the buffer index `sequence - round_sequence` is then a constant for CBMC, which makes slot reads
/// and writes cheap (2 s instead of minutes / tens of GB for a symbolic index; DESIGN 1.4).  Every
/// other field stays symbolic.  Slot contents are checked at these representative positions; the
/// scalar behaviour is checked for ALL positions by the `*_sym` harnesses.
fn any_state_at(config: StrategyConfig, rs: u16, k: u16) -> TracerState {
    let mut st = any_state(config);
    st.round_sequence = Sequence(rs);
    st.sequence = Sequence(rs + k);
    st
}

fn max_seq(c: &StrategyConfig) -> u32 {
    match (c.multipath_strategy, c.target_addr) {
        (MultipathStrategy::Dublin, IpAddr::V6(_)) => u32::from(c.initial_sequence.0) + 512,
        _ => 65535 - 512,
    }
}

/// The scalar part of the representation invariant INV (DESIGN 1.4).
fn inv_scalar(st: &TracerState) -> bool {
    let c = &st.config;
    let rs = u32::from(st.round_sequence.0);
    let seq = u32::from(st.sequence.0);
    let size = seq.wrapping_sub(rs);
    let sent = u32::from(st.ttl.0.wrapping_sub(c.first_ttl.0));
    let reissue = matches!(c.protocol, Protocol::Tcp);
    c.initial_sequence.0 <= MAX_INITIAL_SEQUENCE
        && u32::from(c.initial_sequence.0) <= rs
        && rs < max_seq(c)
        && rs <= seq
        && size <= 512
        && st.ttl.0 >= c.first_ttl.0
        && (if reissue { size >= sent } else { size == sent })
        && u32::from(st.ttl.0) <= u32::from(c.max_ttl.0) + 1
        && match st.max_received_ttl {
            None => !st.target_found,
            Some(m) => m.0 >= c.first_ttl.0 && m.0 < st.ttl.0,
        }
        && match st.target_ttl {
            None => true,
            Some(t) => t.0 >= c.first_ttl.0 && t.0 <= MAX_TTL,
        }
}

fn slot_ok(st: &TracerState, p: &ProbeStatus, idx: u16) -> bool {
    let seq_ok = |s: Sequence| s.0 == st.round_sequence.0.wrapping_add(idx);
    let ttl_ok = |t: TimeToLive| t.0 >= st.config.first_ttl.0 && t.0 < st.ttl.0;
    match p {
        ProbeStatus::NotSent => false,
        ProbeStatus::Skipped => true,
        ProbeStatus::Awaited(a) => seq_ok(a.sequence) && ttl_ok(a.ttl) && a.round == st.round,
        ProbeStatus::Failed(f) => seq_ok(f.sequence) && ttl_ok(f.ttl) && f.round == st.round,
        ProbeStatus::Complete(c) => seq_ok(c.sequence) && ttl_ok(c.ttl) && c.round == st.round,
    }
}

fn probe_eq(a: &Probe, b: &Probe) -> bool {
    a.sequence == b.sequence
        && a.identifier == b.identifier
        && a.src_port == b.src_port
        && a.dest_port == b.dest_port
        && a.ttl == b.ttl
        && a.round == b.round
        && a.sent == b.sent
        && a.flags == b.flags
}

fn awaited_is(slot: &ProbeStatus, p: &Probe) -> bool {
    match slot {
        ProbeStatus::Awaited(a) => probe_eq(a, p),
        _ => false,
    }
}

fn any_probe_at(st: &TracerState, idx: u16) -> Probe {
    let ttl: u8 = kani::any();
    Probe::new(
        Sequence(st.round_sequence.0.wrapping_add(idx)),
        TraceId(kani::any()),
        Port(kani::any()),
        Port(kani::any()),
        TimeToLive(ttl),
        st.round,
        UNIX_EPOCH,
        Flags::empty(),
    )
}

// =========================================================================== C07

/// H07a/H07b (all positions): `next_probe` from EVERY state satisfying INV — round_sequence,
/// sequence (hence the slot index), ttl, round and the whole configuration symbolic — with capacity
/// left and ttl <= max_ttl (the guard `send_request` applies): the issued sequence is the old
/// counter, below 65534, its buffer index is < 512 (no out-of-bounds: CBMC checks the indexing),
/// the counters advance by exactly one, INV is preserved, the Dublin/IPv6 payload length derived
/// from the sequence fits the packet buffer.
fn next_probe_sym(v6: bool) {
    let cfg = any_strategy_config(v6);
    kani::assume(accepted(&cfg));
    let mut st = any_state(cfg);
    kani::assume(inv_scalar(&st));
    kani::assume(st.ttl.0 <= cfg.max_ttl.0);
    kani::assume(st.round_has_capacity());
    let (seq0, rs0, ttl0, round0) = (st.sequence, st.round_sequence, st.ttl, st.round);
    let probe = st.next_probe(UNIX_EPOCH);
    assert!(probe.sequence == seq0 && probe.ttl == ttl0 && probe.round == round0);
    assert!(probe.sequence.0 < u16::MAX - 1, "sequence never reaches 65535");
    assert!(seq0.0 - rs0.0 < 512, "index inside the round buffer");
    assert!(st.sequence.0 == seq0.0 + 1 && st.ttl.0 == ttl0.0 + 1 && st.round_sequence == rs0);
    assert!(st.round == round0);
    assert!(inv_scalar(&st), "INV preserved by next_probe");
    let dublin6 = matches!((cfg.protocol, cfg.multipath_strategy, cfg.target_addr), (Protocol::Udp, MultipathStrategy::Dublin, IpAddr::V6(_)));
    if dublin6 {
        // payload = MAGIC (6) + (sequence - initial); must fit MAX_UDP_PAYLOAD_BUF = 1024 - 40 - 8
        assert!(usize::from(probe.sequence.0 - cfg.initial_sequence.0) + 6 <= 976, "Dublin/IPv6 payload fits");
        assert!(probe.flags.contains(Flags::DUBLIN_IPV6_PAYLOAD_LENGTH));
    }
    kani::cover!(seq0.0 == 65533, "largest issuable sequence");
    kani::cover!(seq0.0 - rs0.0 == 511, "last slot");
    kani::cover!(dublin6 || !v6, "Dublin/IPv6 regime (v6 harness)");
    std::mem::forget(st);
}

#[kani::proof]
#[kani::unwind(3)]
fn c07_next_probe_sym_v4() {
    next_probe_sym(false);
}
#[kani::proof]
#[kani::unwind(3)]
fn c07_next_probe_sym_v6() {
    next_probe_sym(true);
}

/// H07a (slot contents, representative window positions): the probe stored at the index is the
/// probe returned, the slot satisfies INV's slot clause, the neighbouring slots are untouched.
fn next_probe_slot(rs: u16, k: u16, v6: bool) {
    let cfg = any_strategy_config(v6);
    kani::assume(accepted(&cfg));
    let mut st = any_state_at(cfg, rs, k);
    kani::assume(inv_scalar(&st));
    kani::assume(st.ttl.0 <= cfg.max_ttl.0);
    let sent = clock::mk(u64::from(kani::any::<u32>()), 0);
    let probe = st.next_probe(sent);
    assert!(probe.sent == sent && probe.sequence.0 == rs + k);
    let idx = usize::from(k);
    assert!(awaited_is(&st.buffer[idx], &probe), "slot holds the issued probe");
    assert!(slot_ok(&st, &st.buffer[idx], k));
    if idx > 0 {
        assert!(matches!(st.buffer[idx - 1], ProbeStatus::NotSent), "previous slot untouched");
    }
    if idx < 511 {
        assert!(matches!(st.buffer[idx + 1], ProbeStatus::NotSent), "next slot untouched");
    }
    assert!(inv_scalar(&st));
    kani::cover!(matches!(cfg.protocol, Protocol::Tcp), "tcp");
    // beyond 253 used sequences only TCP (re-issues) can be in the round
    kani::cover!(k > 253 || (matches!(cfg.protocol, Protocol::Udp) && matches!(cfg.multipath_strategy, MultipathStrategy::Paris)), "paris");
    std::mem::forget(st);
}

macro_rules! next_probe_slot_harness {
    ($name:ident, $rs:expr, $k:expr, $v6:expr) => {
        #[kani::proof]
        #[kani::unwind(3)]
        fn $name() {
            next_probe_slot($rs, $k, $v6);
        }
    };
}
next_probe_slot_harness!(c07_next_probe_slot_0_0, 0, 0, false);
next_probe_slot_harness!(c07_next_probe_slot_0_511, 0, 511, false);
next_probe_slot_harness!(c07_next_probe_slot_33434_7, 33434, 7, true);
next_probe_slot_harness!(c07_next_probe_slot_33434_253, 33434, 253, false);
next_probe_slot_harness!(c07_next_probe_slot_64511_1, 64511, 1, true);
next_probe_slot_harness!(c07_next_probe_slot_65022_0, 65022, 0, false);
next_probe_slot_harness!(c07_next_probe_slot_65022_511, 65022, 511, false);

/// H07a (all positions): `reissue_probe` (TCP, after a `next_probe`): same ttl as the abandoned
/// probe, next sequence, INV preserved, both indices < 512.
fn reissue_probe_sym(v6: bool) {
    let cfg = any_strategy_config(v6);
    kani::assume(accepted(&cfg) && matches!(cfg.protocol, Protocol::Tcp));
    let mut st = any_state(cfg);
    kani::assume(inv_scalar(&st));
    kani::assume(st.round_has_capacity());
    // a probe was issued in this round just before (reissue is only reachable after next_probe)
    kani::assume(st.sequence.0 > st.round_sequence.0 && st.ttl.0 > cfg.first_ttl.0);
    let (seq0, rs0, ttl0) = (st.sequence, st.round_sequence, st.ttl);
    let probe = st.reissue_probe(UNIX_EPOCH);
    assert!(probe.sequence == seq0 && probe.ttl.0 == ttl0.0 - 1, "same ttl, next sequence");
    assert!(st.sequence.0 == seq0.0 + 1 && st.ttl == ttl0 && st.round_sequence == rs0);
    assert!(seq0.0 - rs0.0 < 512 && probe.sequence.0 < u16::MAX - 1);
    assert!(inv_scalar(&st), "INV preserved by reissue_probe");
    kani::cover!(probe.sequence.0 == 65533, "largest issuable sequence");
    std::mem::forget(st);
}

#[kani::proof]
#[kani::unwind(3)]
fn t07_reissue_probe_sym_v4() {
    reissue_probe_sym(false);
}
#[kani::proof]
#[kani::unwind(3)]
fn t07_reissue_probe_sym_v6() {
    reissue_probe_sym(true);
}

/// H07a (slot contents): previous slot Skipped, new slot holds the re-issued probe.
fn reissue_probe_slot(rs: u16, k: u16, v6: bool) {
    let cfg = any_strategy_config(v6);
    kani::assume(accepted(&cfg) && matches!(cfg.protocol, Protocol::Tcp));
    let mut st = any_state_at(cfg, rs, k);
    kani::assume(inv_scalar(&st));
    kani::assume(st.ttl.0 > cfg.first_ttl.0);
    let prev = usize::from(k) - 1;
    st.buffer[prev] = ProbeStatus::Awaited(any_probe_at(&st, prev as u16));
    let ttl0 = st.ttl;
    let probe = st.reissue_probe(UNIX_EPOCH);
    assert!(probe.sequence.0 == rs + k && probe.ttl.0 == ttl0.0 - 1);
    assert!(matches!(st.buffer[prev], ProbeStatus::Skipped), "abandoned slot is Skipped");
    assert!(awaited_is(&st.buffer[prev + 1], &probe));
    assert!(slot_ok(&st, &st.buffer[prev + 1], k));
    assert!(inv_scalar(&st));
    kani::cover!(true, "reachable");
    std::mem::forget(st);
}

macro_rules! reissue_probe_slot_harness {
    ($name:ident, $rs:expr, $k:expr, $v6:expr) => {
        #[kani::proof]
        #[kani::unwind(3)]
        fn $name() {
            reissue_probe_slot($rs, $k, $v6);
        }
    };
}
reissue_probe_slot_harness!(c07_reissue_probe_slot_0_1, 0, 1, false);
reissue_probe_slot_harness!(c07_reissue_probe_slot_33434_300, 33434, 300, true);
reissue_probe_slot_harness!(c07_reissue_probe_slot_65022_511, 65022, 511, false);

/// H07a + H07c: `advance_round` from every INV state: INV preserved, the new round is empty,
/// starts where the previous one ended or at the initial sequence, sequences only move forward
/// or restart at initial — and (separation) no sequence issued in the round just ended is valid
/// in the new round.  Region: initial_sequence <= 63999 and not the Dublin/IPv6 regime (the
/// complementary regions are the known findings F7 and F8, decided by the twins below).
fn advance_round_step(region: u8) {
    let v6: bool = kani::any();
    let cfg = any_strategy_config(v6);
    kani::assume(accepted(&cfg));
    let dublin6 = matches!((cfg.multipath_strategy, cfg.target_addr), (MultipathStrategy::Dublin, IpAddr::V6(_)));
    match region {
        0 => kani::assume(!dublin6 && cfg.initial_sequence.0 <= 63999),
        1 => kani::assume(!dublin6 && cfg.initial_sequence.0 > 63999),
        2 => kani::assume(dublin6),
        _ => {} // C16: every accepted configuration, INV only (no separation claim)
    }
    let mut st = any_state(cfg);
    kani::assume(inv_scalar(&st));
    let (seq0, rs0, round0) = (st.sequence, st.round_sequence, st.round);
    let prev: u16 = kani::any();
    kani::assume(prev >= rs0.0 && prev < seq0.0); // any sequence issued in the round that ends
    st.advance_round(cfg.first_ttl);
    assert!(st.round.0 == round0.0 + 1);
    assert!(st.round_sequence == st.sequence && st.ttl == cfg.first_ttl);
    assert!(!st.target_found && st.max_received_ttl.is_none() && st.received_time.is_none());
    assert!(st.sequence == seq0 || st.sequence == cfg.initial_sequence, "forward or restart at initial");
    assert!(st.sequence == seq0 || u32::from(seq0.0) >= max_seq(&cfg), "restart only at the maximum");
    assert!(inv_scalar(&st), "INV preserved by advance_round");
    assert!(st.probes().is_empty());
    if region <= 2 {
        assert!(!st.in_round(Sequence(prev)), "previous round's sequence is not valid in the new round");
    }
    kani::cover!(st.sequence == cfg.initial_sequence && seq0 != cfg.initial_sequence, "wrap");
    kani::cover!(st.sequence == seq0, "no wrap");
    std::mem::forget(st);
}

#[kani::proof]
#[kani::unwind(3)]
#[kani::stub(std::time::SystemTime::now, clock::now_stub)]
fn c07_advance_round_step() {
    advance_round_step(0);
}

/// Known-finding twin F7: initial_sequence in 64000..=64511 (general regime).
#[kani::proof]
#[kani::unwind(3)]
#[kani::stub(std::time::SystemTime::now, clock::now_stub)]
fn c07_advance_round_step_region_f7() {
    advance_round_step(1);
}

/// Known-finding twin F8: Dublin/IPv6 regime (max_sequence = initial + 512).
#[kani::proof]
#[kani::unwind(3)]
#[kani::stub(std::time::SystemTime::now, clock::now_stub)]
fn c07_advance_round_step_region_f8() {
    advance_round_step(2);
}

/// C16 ("every accepted configuration can execute rounds without panicking", for any number of
/// rounds): the round-to-round step keeps INV for EVERY builder-accepted configuration, both
/// maximum-sequence regimes and all initial sequences in one query.  INV is what the per-round
/// steps (`c07_next_probe_*`, `c06_send_step_*`, `c07_v6_dublin_payload_slice_in_range`) assume
/// to exclude out-of-range indexing, so this closes the induction over rounds for C16 without
/// the separation claim of C07 / C03 (whose exceptions are the known findings F7 / F8).
#[kani::proof]
#[kani::unwind(3)]
#[kani::stub(std::time::SystemTime::now, clock::now_stub)]
fn c16_advance_round_keeps_inv_all_accepted() {
    advance_round_step(3);
}

/// `in_round` is exactly the 512-wide window and never overflows; `round_has_capacity` is
/// exactly size < 512; `probes()` is exactly the first `size` slots.
#[kani::proof]
#[kani::unwind(3)]
fn c07_window_predicates() {
    let cfg = any_strategy_config(kani::any());
    kani::assume(accepted(&cfg));
    let st = any_state(cfg);
    kani::assume(inv_scalar(&st));
    let s: u16 = kani::any();
    let want = u32::from(s) >= u32::from(st.round_sequence.0) && u32::from(s) < u32::from(st.round_sequence.0) + 512;
    assert!(st.in_round(Sequence(s)) == want);
    let size = st.sequence.0 - st.round_sequence.0;
    assert!(st.round_has_capacity() == (size < 512));
    assert!(st.probes().len() == usize::from(size));
    assert!(st.probes().as_ptr() == st.buffer.as_ptr());
    // every in-window sequence indexes inside the buffer
    assert!(!want || usize::from(s - st.round_sequence.0) < st.buffer.len());
    kani::cover!(size == 512, "full round");
    std::mem::forget(st);
}

// =========================================================================== network / strategy helpers

/// Outcome of one `Network::send_probe` call.
#[derive(Clone, Copy, PartialEq, Eq)]
enum SendOutcome {
    Ok,
    ProbeFailed,
    AddressInUse,
    Fatal,
}

fn any_send_outcome() -> SendOutcome {
    match kani::any::<u8>() % 4 {
        0 => SendOutcome::Ok,
        1 => SendOutcome::ProbeFailed,
        2 => SendOutcome::AddressInUse,
        _ => SendOutcome::Fatal,
    }
}

fn io_err(kind: std::io::ErrorKind) -> IoError {
    IoError::Other(std::io::Error::from(kind), IoOperation::Select)
}

/// The environment model of DESIGN 1.3-4: every send returns an arbitrary outcome, every probe
/// handed over is recorded; `recv_probe` returns what the harness armed.
struct SymNet {
    outcomes: [SendOutcome; 3],
    calls: usize,
    probes: [Option<Probe>; 3],
    recv: Option<Result<Option<Response>, ()>>,
    recv_calls: usize,
}

impl SymNet {
    fn new(outcomes: [SendOutcome; 3]) -> Self {
        Self { outcomes, calls: 0, probes: [None, None, None], recv: None, recv_calls: 0 }
    }
}

impl Network for SymNet {
    fn send_probe(&mut self, probe: Probe) -> crate::error::Result<()> {
        let i = self.calls;
        self.calls += 1;
        let k = if i > 2 { 2 } else { i };
        self.probes[k] = Some(probe);
        match self.outcomes[k] {
            SendOutcome::Ok => Ok(()),
            SendOutcome::ProbeFailed => Err(Error::ProbeFailed(io_err(std::io::ErrorKind::HostUnreachable))),
            SendOutcome::AddressInUse => Err(Error::AddressInUse(SocketAddr::V4(SocketAddrV4::new(Ipv4Addr::LOCALHOST, 1)))),
            SendOutcome::Fatal => Err(Error::IoError(io_err(std::io::ErrorKind::PermissionDenied))),
        }
    }
    fn recv_probe(&mut self) -> crate::error::Result<Option<Response>> {
        self.recv_calls += 1;
        match self.recv.take() {
            None | Some(Ok(None)) => Ok(None),
            Some(Ok(Some(r))) => Ok(Some(r)),
            Some(Err(())) => Err(Error::IoError(io_err(std::io::ErrorKind::PermissionDenied))),
        }
    }
}

fn noop_publish(_: &Round<'_>) {}

/// Upper bounds the property (C06) puts on a probe that goes out now.
fn send_is_within_discipline(st: &TracerState) -> bool {
    let c = &st.config;
    let window_ok = match st.target_ttl {
        // never above the target's distance once it is established
        Some(t) => st.ttl.0 <= t.0,
        // while unknown: never more than max-inflight hops beyond the farthest hop that answered
        None => {
            let base = match st.max_received_ttl {
                Some(m) => m.0,
                None => c.first_ttl.0 - 1,
            };
            u16::from(st.ttl.0) <= u16::from(base) + u16::from(c.max_inflight.0)
        }
    };
    !st.target_found && st.ttl.0 <= c.max_ttl.0 && window_ok
}

/// Every round sends at least the first-ttl probe (C06): the state right after `advance_round`.
fn is_round_start(st: &TracerState) -> bool {
    st.ttl == st.config.first_ttl && st.sequence == st.round_sequence && st.max_received_ttl.is_none() && !st.target_found
}

fn failed_is(slot: &ProbeStatus, p: &Probe) -> bool {
    match slot {
        ProbeStatus::Failed(f) => {
            f.sequence == p.sequence
                && f.ttl == p.ttl
                && f.round == p.round
                && f.src_port == p.src_port
                && f.dest_port == p.dest_port
                && f.identifier == p.identifier
                && f.sent == p.sent
        }
        _ => false,
    }
}

// =========================================================================== C06 / C09 / C01: the send step

/// One `send_request` step (ICMP / UDP: `reissues` = 0) from every INV state at a concrete window
/// position, everything else symbolic, against a network that answers the send with an arbitrary
/// outcome.
///
/// C06: a probe goes out only inside the discipline (ttl = the state's ttl counter, so ttls are
///      consecutive by induction; <= max-ttl; not after the target answered; <= known target
///      distance; inside the in-flight window); at a round start it does go out; the counter
///      moves by exactly one per fresh probe.
/// C09: ProbeFailed => Ok and exactly that probe Failed; any other error is returned unchanged;
///      non-TCP never re-issues.
/// C01: the probe handed to the network is the one stored Awaited at its index; nothing else moves.
fn send_step(rs: u16, k: u16, proto: u8, v6: bool) {
    let mut cfg = any_strategy_config(v6);
    cfg.protocol = if proto == 0 { Protocol::Icmp } else { Protocol::Udp };
    kani::assume(accepted(&cfg));
    let mut st = any_state_at(cfg, rs, k);
    kani::assume(inv_scalar(&st));
    let o0 = any_send_outcome();
    let mut net = SymNet::new([o0, SendOutcome::Fatal, SendOutcome::Fatal]);
    let strategy = Strategy::new(&cfg, noop_publish);
    let (seq0, rs0, ttl0, round0) = (st.sequence, st.round_sequence, st.ttl, st.round);
    let (tf0, mr0, tt0) = (st.target_found, st.max_received_ttl, st.target_ttl);
    let within = send_is_within_discipline(&st);
    let start = is_round_start(&st);
    let res = strategy.send_request(&mut net, &mut st);
    // bookkeeping that a send step never touches
    assert!(st.round_sequence == rs0 && st.round == round0);
    assert!(st.target_found == tf0 && st.max_received_ttl == mr0 && st.target_ttl == tt0);
    assert!(net.calls <= 1, "at most one send per step; ICMP/UDP never re-issue");
    if net.calls == 0 {
        assert!(res.is_ok() && st.sequence == seq0 && st.ttl == ttl0, "no send: nothing moves");
        assert!(!start, "every round sends at least the first-ttl probe");
        assert!(matches!(st.buffer[usize::from(k)], ProbeStatus::NotSent));
    } else {
        assert!(within, "nothing is sent outside the discipline");
        let p0 = net.probes[0].clone().unwrap();
        assert!(p0.ttl == ttl0 && p0.sequence == seq0 && p0.round == round0, "fresh probe = state counters");
        assert!(p0.ttl.0 <= cfg.max_ttl.0 && p0.ttl.0 >= cfg.first_ttl.0 && p0.ttl.0 >= 1 && p0.ttl.0 <= MAX_TTL);
        assert!(st.ttl.0 == ttl0.0 + 1 && st.sequence.0 == seq0.0 + 1, "counters move by exactly one");
        let slot = &st.buffer[usize::from(k)];
        match o0 {
            SendOutcome::Ok => {
                assert!(res.is_ok());
                assert!(awaited_is(slot, &p0), "the probe on the wire is the one awaited at its index");
            }
            SendOutcome::ProbeFailed => {
                assert!(res.is_ok(), "a transient send failure is not fatal");
                assert!(failed_is(slot, &p0), "failed send marks exactly that probe Failed");
            }
            SendOutcome::AddressInUse => {
                assert!(matches!(res, Err(Error::AddressInUse(_))), "returned unchanged");
                assert!(awaited_is(slot, &p0));
            }
            SendOutcome::Fatal => {
                assert!(matches!(res, Err(Error::IoError(_))), "a fatal error is returned unchanged");
                assert!(awaited_is(slot, &p0));
            }
        }
        if k < 511 {
            assert!(matches!(st.buffer[usize::from(k) + 1], ProbeStatus::NotSent), "next slot untouched");
        }
        assert!(inv_scalar(&st), "INV preserved by the send step");
    }
    kani::cover!(net.calls == 1 && o0 == SendOutcome::ProbeFailed, "transient failure");
    kani::cover!(k == 0 || (net.calls == 0 && !tf0 && ttl0.0 <= cfg.max_ttl.0 && tt0.is_none()), "in-flight window closed");
    kani::cover!(net.calls == 1 && tt0.is_some(), "target distance known");
    kani::cover!(k != 0 || (net.calls == 1 && start), "first probe of a round");
    std::mem::forget(st);
    std::mem::forget(net);
    std::mem::forget(res);
}

macro_rules! send_step_harness {
    ($name:ident, $rs:expr, $k:expr, $proto:expr, $v6:expr) => {
        #[kani::proof]
        #[kani::unwind(2)]
        #[kani::stub(std::time::SystemTime::now, clock::now_stub)]
        fn $name() {
            send_step($rs, $k, $proto, $v6);
        }
    };
}
send_step_harness!(c06_send_step_icmp_0_0, 0, 0, 0, false);
send_step_harness!(c06_send_step_icmp_33434_5, 33434, 5, 0, true);
send_step_harness!(c06_send_step_udp_64511_0, 64511, 0, 1, true);
send_step_harness!(c06_send_step_udp_33434_9, 33434, 9, 1, false);
send_step_harness!(c06_send_step_udp_65022_253, 65022, 253, 1, false);

/// The TCP send step: `next_probe`, then for every AddressInUse answer a `reissue_probe` under the
/// next sequence with the same ttl, the abandoned slot Skipped; InsufficientCapacity exactly when
/// the 512-slot budget is exhausted (never an out-of-bounds index).  Bound: at most one
/// AddressInUse answer per step (the loop body is uniform; the budget boundary is taken at
/// k = 510, 511, 512).
fn send_step_tcp(rs: u16, k: u16, v6: bool, mode: u8) {
    let mut cfg = any_strategy_config(v6);
    cfg.protocol = Protocol::Tcp;
    kani::assume(accepted(&cfg));
    let mut st = any_state_at(cfg, rs, k);
    kani::assume(inv_scalar(&st));
    // bound: at most one AddressInUse answer per step, and the re-issued probe is answered Ok or
    // ProbeFailed (a fatal answer takes the same path as for the fresh probe): one loop iteration.
    // mode 0: the fresh probe is answered Ok / ProbeFailed / Fatal (symbolic); mode 1: AddressInUse
    // then Ok; mode 2: AddressInUse then ProbeFailed (split to keep each query below 16 GB).
    let o0 = if mode == 0 {
        match kani::any::<u8>() % 3 {
            0 => SendOutcome::Ok,
            1 => SendOutcome::ProbeFailed,
            _ => SendOutcome::Fatal,
        }
    } else {
        SendOutcome::AddressInUse
    };
    let o1 = if mode == 2 { SendOutcome::ProbeFailed } else { SendOutcome::Ok };
    let mut net = SymNet::new([o0, o1, SendOutcome::Fatal]);
    let strategy = Strategy::new(&cfg, noop_publish);
    let (seq0, rs0, ttl0, round0) = (st.sequence, st.round_sequence, st.ttl, st.round);
    let within = send_is_within_discipline(&st);
    let start = is_round_start(&st);
    let res = strategy.send_request(&mut net, &mut st);
    assert!(st.round_sequence == rs0 && st.round == round0);
    if net.calls == 0 {
        assert!(st.sequence == seq0 && st.ttl == ttl0, "no send: nothing moves");
        if k >= 512 {
            // budget exhausted: a capacity error (or no attempt at all), never an out-of-bounds slot
            assert!(res.is_ok() || matches!(res, Err(Error::InsufficientCapacity)));
            assert!(within || res.is_ok(), "no capacity error when nothing was to be sent");
        } else {
            assert!(res.is_ok());
            assert!(!start, "every round sends at least the first-ttl probe");
        }
    } else {
        assert!(within && k < 512, "nothing is sent outside the discipline or the buffer");
        let p0 = net.probes[0].clone().unwrap();
        assert!(p0.ttl == ttl0 && p0.sequence == seq0 && p0.round == round0);
        assert!(st.ttl.0 == ttl0.0 + 1, "ttl counter moves by exactly one per fresh probe");
        if o0 != SendOutcome::AddressInUse {
            assert!(net.calls == 1 && st.sequence.0 == seq0.0 + 1);
            let slot = &st.buffer[usize::from(k)];
            match o0 {
                SendOutcome::Ok => assert!(res.is_ok() && awaited_is(slot, &p0)),
                SendOutcome::ProbeFailed => assert!(res.is_ok() && failed_is(slot, &p0)),
                _ => assert!(matches!(res, Err(Error::IoError(_))) && awaited_is(slot, &p0)),
            }
        } else if k >= 511 {
            // the fresh probe took the last slot: no room to re-issue
            assert!(net.calls == 1 && matches!(res, Err(Error::InsufficientCapacity)));
            assert!(st.sequence.0 == seq0.0 + 1);
        } else {
            assert!(net.calls == 2, "re-issued once");
            let p1 = net.probes[1].clone().unwrap();
            assert!(p1.ttl == p0.ttl, "a re-issued probe keeps its ttl");
            assert!(p1.sequence.0 == p0.sequence.0 + 1 && p1.round == p0.round, "next sequence number");
            assert!(st.sequence.0 == seq0.0 + 2);
            assert!(matches!(st.buffer[usize::from(k)], ProbeStatus::Skipped), "abandoned slot is Skipped");
            let slot = &st.buffer[usize::from(k) + 1];
            match o1 {
                SendOutcome::Ok => assert!(res.is_ok() && awaited_is(slot, &p1)),
                SendOutcome::ProbeFailed => assert!(res.is_ok() && failed_is(slot, &p1)),
                _ => assert!(matches!(res, Err(Error::IoError(_))) && awaited_is(slot, &p1)),
            }
        }
        assert!(inv_scalar(&st), "INV preserved by the send step");
    }
    kani::cover!(k >= 511 || mode == 0 || net.calls == 2, "re-issued and sent");
    kani::cover!(k != 511 || mode == 0 || (net.calls == 1 && o0 == SendOutcome::AddressInUse), "capacity exhausted during re-issue");
    kani::cover!(k < 512 || matches!(res, Err(Error::InsufficientCapacity)), "capacity exhausted before the fresh probe");
    std::mem::forget(st);
    std::mem::forget(net);
    std::mem::forget(res);
}

macro_rules! send_step_tcp_harness {
    ($name:ident, $rs:expr, $k:expr, $v6:expr, $mode:expr) => {
        #[kani::proof]
        #[kani::unwind(2)]
        #[kani::stub(std::time::SystemTime::now, clock::now_stub)]
        fn $name() {
            send_step_tcp($rs, $k, $v6, $mode);
        }
    };
}
send_step_tcp_harness!(c06_send_step_tcp_0_0_fresh, 0, 0, false, 0);
send_step_tcp_harness!(c06_send_step_tcp_0_0_reissue_ok, 0, 0, false, 1);
send_step_tcp_harness!(c06_send_step_tcp_33434_17_fresh, 33434, 17, true, 0);
send_step_tcp_harness!(c06_send_step_tcp_33434_17_reissue_failed, 33434, 17, true, 2);
send_step_tcp_harness!(c06_send_step_tcp_65022_510_reissue_ok, 65022, 510, false, 1);
send_step_tcp_harness!(c06_send_step_tcp_65022_511_fresh, 65022, 511, false, 0);
send_step_tcp_harness!(c06_send_step_tcp_65022_511_reissue, 65022, 511, false, 1);
send_step_tcp_harness!(c06_send_step_tcp_33434_512, 33434, 512, false, 0);

// =========================================================================== C08: round completion timing

/// What the publish callback saw.
#[derive(Clone, Copy)]
struct Published {
    n: usize,
    ptr: usize,
    largest_ttl: u8,
    target_found_reason: bool,
}

fn dur_since(later: (u64, u32), earlier: (u64, u32)) -> Option<(u64, u32)> {
    // (secs, nanos) difference, None if `later` is before `earlier`
    if later.0 > earlier.0 || (later.0 == earlier.0 && later.1 >= earlier.1) {
        if later.1 >= earlier.1 {
            Some((later.0 - earlier.0, later.1 - earlier.1))
        } else {
            Some((later.0 - earlier.0 - 1, later.1 + 1_000_000_000 - earlier.1))
        }
    } else {
        None
    }
}

fn gt(a: (u64, u32), b: (u64, u32)) -> bool {
    a.0 > b.0 || (a.0 == b.0 && a.1 > b.1)
}

/// One `update_round` call with the clock reading, the round's start, the last-response time and
/// the three durations all symbolic (seconds < 2^32, any nanosecond; the clock may even step
/// backwards): the round is published iff `now - start > max` or (target found and
/// `now - start > min` and a response was received and `now - last_response > grace`); the reason
/// is TargetFound iff the target answered; after a publish the round id advanced by one and the
/// next round starts at the next clock reading; otherwise nothing changes.
#[kani::proof]
#[kani::unwind(4)]
#[kani::stub(std::time::SystemTime::now, clock::now_stub)]
fn c08_update_round_step() {
    let mut cfg = any_strategy_config(kani::any());
    kani::assume(accepted(&cfg));
    let (min_s, min_n, max_s, max_n, gr_s, gr_n): (u32, u32, u32, u32, u32, u32) = kani::any();
    kani::assume(min_n < 1_000_000_000 && max_n < 1_000_000_000 && gr_n < 1_000_000_000);
    let (dmin, dmax, dgr) = ((u64::from(min_s), min_n), (u64::from(max_s), max_n), (u64::from(gr_s), gr_n));
    kani::assume(!gt(dmin, dmax)); // min <= max (validated by the CLI layer; property quantifier)
    cfg.min_round_duration = Duration::new(dmin.0, dmin.1);
    cfg.max_round_duration = Duration::new(dmax.0, dmax.1);
    cfg.grace_duration = Duration::new(dgr.0, dgr.1);
    let mut st = any_state(cfg);
    kani::assume(inv_scalar(&st));
    let (start, start_s, start_n) = any_time();
    st.round_start = start;
    let has_recv: bool = kani::any();
    let (recv, recv_s, recv_n) = any_time();
    st.received_time = if has_recv { Some(recv) } else { None };
    kani::assume(has_recv || !st.target_found);
    let (now_s, now_n): (u32, u32) = kani::any();
    let (next_s, next_n): (u32, u32) = kani::any();
    kani::assume(now_n < 1_000_000_000 && next_n < 1_000_000_000);
    clock::set(0, u64::from(now_s), now_n);
    clock::set(1, u64::from(next_s), next_n);
    let now = (u64::from(now_s), now_n);
    let seen = std::cell::Cell::new(None::<Published>);
    let strategy = Strategy::new(&cfg, |r: &Round<'_>| {
        seen.set(Some(Published {
            n: r.probes.len(),
            ptr: r.probes.as_ptr() as usize,
            largest_ttl: r.largest_ttl.0,
            target_found_reason: r.reason == CompletionReason::TargetFound,
        }));
    });
    let (seq0, rs0, ttl0, round0, tf0, mr0, tt0) =
        (st.sequence, st.round_sequence, st.ttl, st.round, st.target_found, st.max_received_ttl, st.target_ttl);
    strategy.update_round(&mut st);
    // ---- the timing policy, restated
    let round_dur = dur_since(now, (start_s, start_n)).unwrap_or((0, 0));
    let over_max = gt(round_dur, dmax);
    let over_min = gt(round_dur, dmin);
    let grace = has_recv && gt(dur_since(now, (recv_s, recv_n)).unwrap_or((0, 0)), dgr);
    let should = over_max || (tf0 && over_min && grace);
    match seen.get() {
        Some(p) => {
            assert!(should, "a round is published only when the timing policy says");
            assert!(p.target_found_reason == tf0, "completion reason tells which");
            assert!(p.n == usize::from(seq0.0 - rs0.0) && p.ptr == st.buffer.as_ptr() as usize);
            assert!(st.round.0 == round0.0 + 1, "round id advances by exactly one per publish");
            assert!(st.round_start == clock::mk(u64::from(next_s), next_n), "next round starts at the next clock reading");
            assert!(clock::calls() == 2);
            assert!(st.ttl == cfg.first_ttl && st.round_sequence == st.sequence && !st.target_found);
            assert!(st.max_received_ttl.is_none() && st.received_time.is_none() && st.target_ttl == tt0);
        }
        None => {
            assert!(!should, "a round whose time is up is published");
            assert!(clock::calls() == 1);
            assert!(st.sequence == seq0 && st.round_sequence == rs0 && st.ttl == ttl0 && st.round == round0);
            assert!(st.target_found == tf0 && st.max_received_ttl == mr0 && st.target_ttl == tt0);
            assert!(st.round_start == start && st.received_time.is_some() == has_recv);
        }
    }
    kani::cover!(seen.get().is_some() && tf0 && !over_max, "published for target found");
    kani::cover!(seen.get().is_some() && !tf0, "published for time limit");
    kani::cover!(seen.get().is_none() && tf0 && over_min && !grace, "held open during grace");
    kani::cover!(dur_since(now, (start_s, start_n)).is_none(), "clock stepped backwards");
    kani::cover!(dmax == (0, 0) && seen.get().is_none(), "zero durations");
    std::mem::forget(st);
}

/// Two consecutive loop iterations (clock readings t1 <= t2, at most one read timeout apart): a
/// round is never held open beyond max-round-duration plus one read timeout — if the first call did
/// not publish and the round is older than max at the second, the second publishes; and a round is
/// published at most once per call.  All durations zero included.
#[kani::proof]
#[kani::unwind(4)]
#[kani::stub(std::time::SystemTime::now, clock::now_stub)]
fn c08_round_not_held_open() {
    let mut cfg = any_strategy_config(kani::any());
    kani::assume(accepted(&cfg));
    let (max_s, max_n, to_s): (u32, u32, u32) = kani::any();
    kani::assume(max_n < 1_000_000_000 && max_s < 1_000_000 && to_s < 1_000_000);
    let dmax = (u64::from(max_s), max_n);
    cfg.min_round_duration = Duration::ZERO;
    cfg.max_round_duration = Duration::new(dmax.0, dmax.1);
    cfg.grace_duration = any_duration();
    let mut st = any_state(cfg);
    kani::assume(inv_scalar(&st));
    let (start, start_s, start_n) = any_time();
    st.round_start = start;
    st.received_time = None;
    st.target_found = false;
    let (t1_s, t1_n, t2_s, t2_n): (u32, u32, u32, u32) = kani::any();
    kani::assume(t1_n < 1_000_000_000 && t2_n < 1_000_000_000);
    let (t1, t2) = ((u64::from(t1_s), t1_n), (u64::from(t2_s), t2_n));
    kani::assume(!gt((start_s, start_n), t1) && !gt(t1, t2)); // start <= t1 <= t2
    // one loop iteration costs at most one read timeout
    kani::assume(!gt(dur_since(t2, t1).unwrap(), (u64::from(to_s), 0)));
    clock::set(0, t1.0, t1.1);
    clock::set(1, t2.0, t2.1);
    clock::set(2, t2.0, t2.1);
    let count = std::cell::Cell::new(0u32);
    let strategy = Strategy::new(&cfg, |_r: &Round<'_>| count.set(count.get() + 1));
    let round0 = st.round;
    strategy.update_round(&mut st);
    let first = count.get();
    if first == 0 {
        // the clock's second reading is consumed by this call
        strategy.update_round(&mut st);
        let age = dur_since(t2, (start_s, start_n)).unwrap();
        if gt(age, dmax) {
            assert!(count.get() == 1, "a round older than max-round-duration is published at the next iteration");
            // so the round was open at most max + one read timeout: at t1 it was not yet over max
            assert!(!gt(dur_since(t1, (start_s, start_n)).unwrap(), dmax));
        } else {
            assert!(count.get() == 0, "not published before its time (no target found)");
        }
    } else {
        assert!(first == 1 && st.round.0 == round0.0 + 1);
    }
    kani::cover!(first == 0 && count.get() == 1, "published at the second iteration");
    kani::cover!(first == 0 && count.get() == 0, "still open");
    kani::cover!(dmax == (0, 0) && first == 1, "zero max duration");
    std::mem::forget(st);
}

// =========================================================================== C09: a transient send failure
/// `fail_probe` (what `do_send` calls on `Error::ProbeFailed`) with the initial sequence, the round
/// start and the round size ALL concrete, so that whatever index the code computes is a constant:
/// exactly the probe issued last (slot size - 1 of the CURRENT round, which need not start at the
/// initial sequence) turns from Awaited into Failed with the same sequence / ttl / round / ports,
/// its neighbour and the slot a round-0-relative index would name stay as they were, no counter moves.
fn fail_probe_slot(initial: u16, rs: u16, k: u16) {
    let v6: bool = kani::any();
    let mut cfg = any_strategy_config(v6);
    cfg.initial_sequence = Sequence(initial);
    kani::assume(accepted(&cfg));
    let mut st = any_state_at(cfg, rs, k);
    kani::assume(inv_scalar(&st));
    let last = usize::from(k) - 1;
    let p = any_probe_at(&st, last as u16);
    st.buffer[last] = ProbeStatus::Awaited(p.clone());
    if last >= 1 {
        st.buffer[last - 1] = ProbeStatus::Skipped;
    }
    let (seq0, ttl0, round0) = (st.sequence, st.ttl, st.round);
    st.fail_probe();
    match &st.buffer[last] {
        ProbeStatus::Failed(f) => {
            assert!(f.sequence == p.sequence && f.ttl == p.ttl && f.round == p.round, "exactly that probe is marked failed");
            assert!(f.identifier == p.identifier && f.src_port == p.src_port && f.dest_port == p.dest_port);
        }
        _ => assert!(false, "the probe issued last is marked Failed"),
    }
    if last >= 1 {
        assert!(matches!(st.buffer[last - 1], ProbeStatus::Skipped), "neighbour untouched");
    }
    if usize::from(k) < 512 {
        assert!(matches!(st.buffer[usize::from(k)], ProbeStatus::NotSent), "next slot untouched");
    }
    assert!(st.sequence == seq0 && st.ttl == ttl0 && st.round == round0, "no counter moves");
    kani::cover!(true, "reachable");
    std::mem::forget(st);
    std::mem::forget(p);
}

macro_rules! fail_probe_slot_harness {
    ($name:ident, $initial:expr, $rs:expr, $k:expr) => {
        #[kani::proof]
        #[kani::unwind(2)]
        fn $name() {
            fail_probe_slot($initial, $rs, $k);
        }
    };
}
fail_probe_slot_harness!(c09_fail_probe_slot_100_300_5, 100, 300, 5);
fail_probe_slot_harness!(c09_fail_probe_slot_33434_33434_1, 33434, 33434, 1);
fail_probe_slot_harness!(c09_fail_probe_slot_0_65022_511, 0, 65022, 511);

// =========================================================================== C09: termination

/// `finished(n)` <=> round >= n for every n >= 1 and every round counter.
#[kani::proof]
#[kani::unwind(3)]
fn c09_finished_iff_round_limit() {
    let cfg = any_strategy_config(false);
    let st = any_state(cfg);
    let n: usize = kani::any();
    kani::assume(n >= 1);
    let mr = MaxRounds(std::num::NonZeroUsize::new(n).unwrap());
    assert!(st.finished(Some(mr)) == (st.round.0 >= n));
    assert!(!st.finished(None));
    kani::cover!(st.finished(Some(mr)), "finished");
    kani::cover!(!st.finished(Some(mr)) && st.round.0 + 1 == n, "last round in progress");
    std::mem::forget(st);
}

/// A receive error is returned unchanged and leaves the state untouched; a timeout changes nothing.
fn recv_no_response(fatal: bool) {
    let cfg = any_strategy_config(kani::any());
    kani::assume(accepted(&cfg));
    let mut st = any_state(cfg);
    kani::assume(inv_scalar(&st));
    let mut net = SymNet::new([SendOutcome::Ok, SendOutcome::Ok, SendOutcome::Ok]);
    net.recv = if fatal { Some(Err(())) } else { None };
    let strategy = Strategy::new(&cfg, noop_publish);
    let (seq0, rs0, ttl0, round0, tf0, mr0, tt0) =
        (st.sequence, st.round_sequence, st.ttl, st.round, st.target_found, st.max_received_ttl, st.target_ttl);
    let res = strategy.recv_response(&mut net, &mut st);
    assert!(net.recv_calls == 1);
    if fatal {
        assert!(matches!(res, Err(Error::IoError(_))), "a fatal receive error is returned");
    } else {
        assert!(res.is_ok());
    }
    assert!(st.sequence == seq0 && st.round_sequence == rs0 && st.ttl == ttl0 && st.round == round0);
    assert!(st.target_found == tf0 && st.max_received_ttl == mr0 && st.target_ttl == tt0 && st.received_time.is_none());
    kani::cover!(true, "reachable");
    std::mem::forget(st);
    std::mem::forget(net);
    std::mem::forget(res);
}

#[kani::proof]
#[kani::unwind(2)]
fn c09_recv_fatal_error() {
    recv_no_response(true);
}
#[kani::proof]
#[kani::unwind(2)]
fn c09_recv_timeout() {
    recv_no_response(false);
}

// =========================================================================== C10: publish_trace

/// `publish_trace` from every INV state: the published slice is exactly the slots
/// [0, sequence - round_sequence) of the round buffer; largest_ttl is the target distance when
/// known, else 0 iff nothing answered, else min(highest ttl sent, highest ttl answered + 1); it is
/// always 0 or within [first_ttl, 254]; the reason is TargetFound iff the target answered.
#[kani::proof]
#[kani::unwind(3)]
fn c10_publish_trace() {
    let cfg = any_strategy_config(kani::any());
    kani::assume(accepted(&cfg));
    let st = any_state(cfg);
    kani::assume(inv_scalar(&st));
    let seen = std::cell::Cell::new(None::<Published>);
    let strategy = Strategy::new(&cfg, |r: &Round<'_>| {
        seen.set(Some(Published {
            n: r.probes.len(),
            ptr: r.probes.as_ptr() as usize,
            largest_ttl: r.largest_ttl.0,
            target_found_reason: r.reason == CompletionReason::TargetFound,
        }));
    });
    strategy.publish_trace(&st);
    let p = seen.get().unwrap();
    assert!(p.n == usize::from(st.sequence.0 - st.round_sequence.0), "nothing dropped, nothing invented");
    assert!(p.ptr == st.buffer.as_ptr() as usize);
    assert!(p.target_found_reason == st.target_found);
    let want = match (st.target_ttl, st.max_received_ttl) {
        (Some(t), _) => t.0,
        (None, None) => 0,
        (None, Some(m)) => {
            let max_sent = st.ttl.0 - 1;
            if max_sent < m.0 + 1 { max_sent } else { m.0 + 1 }
        }
    };
    assert!(p.largest_ttl == want);
    assert!(p.largest_ttl == 0 || (p.largest_ttl >= cfg.first_ttl.0 && p.largest_ttl <= MAX_TTL));
    if st.target_ttl.is_none() && st.max_received_ttl.is_some() {
        assert!(p.largest_ttl < st.ttl.0, "not beyond the highest ttl sent in the round");
    }
    kani::cover!(p.largest_ttl == 0, "nothing answered");
    kani::cover!(st.target_ttl.is_none() && p.largest_ttl == 254, "full path without target");
    std::mem::forget(st);
}

// =========================================================================== C01 / C03: the receive step

/// IpAddr equality without memcmp (keeps unwind(2) harnesses free of byte-compare loops).
fn ip_eq(a: IpAddr, b: IpAddr) -> bool {
    match (a, b) {
        (IpAddr::V4(x), IpAddr::V4(y)) => u32::from(x) == u32::from(y),
        (IpAddr::V6(x), IpAddr::V6(y)) => u128::from(x) == u128::from(y),
        _ => false,
    }
}

fn any_icmp_packet_type() -> IcmpPacketType {
    match kani::any::<u8>() % 4 {
        0 => IcmpPacketType::TimeExceeded(IcmpPacketCode(kani::any())),
        1 => IcmpPacketType::EchoReply(IcmpPacketCode(kani::any())),
        2 => IcmpPacketType::Unreachable(IcmpPacketCode(kani::any())),
        _ => IcmpPacketType::NotApplicable,
    }
}

fn any_opt_u8() -> Option<u8> {
    if kani::any() { Some(kani::any()) } else { None }
}

/// An arbitrary derived response naming the in-window sequence `rs + j` (j concrete).
fn any_strategy_response(rs: u16, j: u16, v6: bool) -> (StrategyResponse, SystemTime, bool) {
    let (received, _, _) = any_time();
    let with_exts: bool = kani::any();
    let r = StrategyResponse {
        icmp_packet_type: any_icmp_packet_type(),
        trace_id: TraceId(kani::any()),
        sequence: Sequence(rs + j),
        tos: any_opt_u8().map(TypeOfService),
        expected_udp_checksum: if kani::any() { Some(Checksum(kani::any())) } else { None },
        actual_udp_checksum: if kani::any() { Some(Checksum(kani::any())) } else { None },
        received,
        addr: any_ip(v6),
        is_target: kani::any(),
        exts: if with_exts { Some(Extensions::default()) } else { None },
    };
    (r, received, with_exts)
}

/// Effect of `complete_probe` on an AWAITED slot (concrete window position, everything else
/// symbolic): the slot becomes Complete with the awaited probe's identity (sequence, ports, ttl,
/// round, send time) and the response's responder, receive time, kind/code, tos, checksums and
/// extensions; the neighbouring (observer) slot is untouched; target distance, farthest answered
/// ttl, last-response time and target-found are updated exactly per the documented rule; INV holds.
fn complete_probe_awaited(rs: u16, size: u16, j: u16, v6: bool) {
    let cfg = any_strategy_config(v6);
    kani::assume(accepted(&cfg));
    let mut st = any_state_at(cfg, rs, size);
    kani::assume(inv_scalar(&st));
    let awaited = any_probe_at(&st, j);
    kani::assume(awaited.ttl.0 >= cfg.first_ttl.0 && awaited.ttl.0 < st.ttl.0);
    let sent = clock::mk(u64::from(kani::any::<u32>()), 0);
    let awaited = Probe { sent, ..awaited };
    st.buffer[usize::from(j)] = ProbeStatus::Awaited(awaited.clone());
    let obs = any_probe_at(&st, j + 1);
    st.buffer[usize::from(j) + 1] = ProbeStatus::Awaited(obs.clone());
    let (resp, received, with_exts) = any_strategy_response(rs, j, v6);
    let (r_addr, r_kind, r_tos, r_exp, r_act, r_target) =
        (resp.addr, resp.icmp_packet_type, resp.tos, resp.expected_udp_checksum, resp.actual_udp_checksum, resp.is_target);
    let (seq0, ttl0, round0, tf0, mr0, tt0) = (st.sequence, st.ttl, st.round, st.target_found, st.max_received_ttl, st.target_ttl);
    st.complete_probe(resp);
    match &st.buffer[usize::from(j)] {
        ProbeStatus::Complete(c) => {
            assert!(c.sequence == awaited.sequence && c.identifier == awaited.identifier);
            assert!(c.src_port == awaited.src_port && c.dest_port == awaited.dest_port);
            assert!(c.ttl == awaited.ttl && c.round == awaited.round && c.sent == awaited.sent, "ttl / round / send time of the probe");
            assert!(ip_eq(c.host, r_addr), "responder address");
            assert!(c.received == received, "receive time (round-trip time = received - sent)");
            assert!(c.icmp_packet_type == r_kind, "response kind and code");
            assert!(c.tos == r_tos && c.expected_udp_checksum == r_exp && c.actual_udp_checksum == r_act);
            assert!(c.extensions.is_some() == with_exts);
        }
        _ => assert!(false, "an awaited probe that is answered is reported complete"),
    }
    assert!(awaited_is(&st.buffer[usize::from(j) + 1], &obs), "every other probe is untouched");
    if j > 0 {
        assert!(matches!(st.buffer[usize::from(j) - 1], ProbeStatus::NotSent));
    }
    // bookkeeping, per the documented rule
    let t = awaited.ttl;
    let want_tt = if r_target {
        match tt0 {
            None => Some(t),
            Some(x) if t < x => Some(t),
            Some(x) => Some(x),
        }
    } else {
        match tt0 {
            Some(x) if t >= x => None,
            other => other,
        }
    };
    assert!(st.target_ttl == want_tt);
    let want_mr = match mr0 {
        None => t,
        Some(m) => if m > t { m } else { t },
    };
    assert!(st.max_received_ttl == Some(want_mr));
    assert!(st.received_time == Some(received));
    assert!(st.target_found == (tf0 || r_target));
    assert!(st.sequence == seq0 && st.ttl == ttl0 && st.round == round0 && st.round_sequence.0 == rs);
    assert!(inv_scalar(&st), "INV preserved by complete_probe");
    kani::cover!(r_target && tt0.is_some(), "target answered again");
    kani::cover!(!r_target && st.target_ttl.is_none() && tt0.is_some(), "target distance reset (ECMP)");
    kani::cover!(with_exts, "extensions carried over");
    std::mem::forget(st);
}

macro_rules! complete_probe_awaited_harness {
    ($name:ident, $rs:expr, $size:expr, $j:expr, $v6:expr) => {
        #[kani::proof]
        #[kani::unwind(2)]
        fn $name() {
            complete_probe_awaited($rs, $size, $j, $v6);
        }
    };
}
complete_probe_awaited_harness!(c01_complete_probe_awaited_0_2_0, 0, 2, 0, false);
complete_probe_awaited_harness!(c01_complete_probe_awaited_33434_9_7, 33434, 9, 7, true);
complete_probe_awaited_harness!(c01_complete_probe_awaited_65022_512_510, 65022, 512, 510, false);

/// Effect of `complete_probe` on a slot that is NOT awaiting its first response — already Complete
/// (duplicate: first response wins), NotSent (a sequence that was never sent), Skipped or Failed:
/// every probe and the whole round bookkeeping stay unchanged, and nothing panics.
fn complete_probe_ignored(rs: u16, size: u16, j: u16, kind: u8, v6: bool) {
    let cfg = any_strategy_config(v6);
    kani::assume(accepted(&cfg));
    let mut st = any_state_at(cfg, rs, size);
    kani::assume(inv_scalar(&st));
    let p = any_probe_at(&st, j);
    let first_host = any_ip(v6);
    let first_kind = any_icmp_packet_type();
    let (first_recv, _, _) = any_time();
    st.buffer[usize::from(j)] = match kind {
        0 => ProbeStatus::Complete(p.clone().complete(first_host, first_recv, first_kind, None, None, None, None)),
        1 => ProbeStatus::NotSent,
        2 => ProbeStatus::Skipped,
        _ => ProbeStatus::Failed(p.clone().failed()),
    };
    let obs = any_probe_at(&st, j + 1);
    st.buffer[usize::from(j) + 1] = ProbeStatus::Awaited(obs.clone());
    let (resp, _, _) = any_strategy_response(rs, j, v6);
    let (seq0, ttl0, round0, tf0, mr0, tt0) = (st.sequence, st.ttl, st.round, st.target_found, st.max_received_ttl, st.target_ttl);
    st.complete_probe(resp);
    match (&st.buffer[usize::from(j)], kind) {
        (ProbeStatus::Complete(c), 0) => {
            assert!(ip_eq(c.host, first_host) && c.received == first_recv && c.icmp_packet_type == first_kind, "first response wins");
            assert!(c.sequence == p.sequence && c.ttl == p.ttl && c.round == p.round);
        }
        (ProbeStatus::NotSent, 1) | (ProbeStatus::Skipped, 2) => {}
        (ProbeStatus::Failed(f), 3) => assert!(f.sequence == p.sequence && f.ttl == p.ttl),
        _ => assert!(false, "slot changed"),
    }
    assert!(awaited_is(&st.buffer[usize::from(j) + 1], &obs));
    assert!(st.sequence == seq0 && st.ttl == ttl0 && st.round == round0 && st.round_sequence.0 == rs);
    assert!(st.target_found == tf0 && st.max_received_ttl == mr0 && st.target_ttl == tt0, "progress bookkeeping unchanged");
    assert!(st.received_time.is_none());
    kani::cover!(true, "reachable");
    std::mem::forget(st);
}

macro_rules! complete_probe_ignored_harness {
    ($name:ident, $rs:expr, $size:expr, $j:expr, $kind:expr, $v6:expr) => {
        #[kani::proof]
        #[kani::unwind(2)]
        fn $name() {
            complete_probe_ignored($rs, $size, $j, $kind, $v6);
        }
    };
}
complete_probe_ignored_harness!(c03_duplicate_ignored_33434_9_7, 33434, 9, 7, 0, false);
complete_probe_ignored_harness!(c03_duplicate_ignored_65022_512_510, 65022, 512, 510, 0, true);
complete_probe_ignored_harness!(c03_never_sent_ignored_33434_3_300, 33434, 3, 300, 1, false);
complete_probe_ignored_harness!(c03_never_sent_ignored_0_0_0, 0, 0, 0, 1, true);
complete_probe_ignored_harness!(c03_skipped_ignored_33434_9_7, 33434, 9, 7, 2, false);
complete_probe_ignored_harness!(c03_failed_ignored_33434_9_7, 33434, 9, 7, 3, false);

// ------------------------------------------------------------------ the accept / reject decision

fn any_proto_resp(which: u8, v6: bool) -> ProtocolResponse {
    match which {
        0 => ProtocolResponse::Icmp(IcmpProtocolResponse::new(kani::any(), kani::any(), any_opt_u8().map(TypeOfService))),
        1 => ProtocolResponse::Udp(UdpProtocolResponse::new(
            kani::any(),
            any_ip(v6),
            kani::any(),
            kani::any(),
            any_opt_u8().map(TypeOfService),
            kani::any(),
            kani::any(),
            kani::any(),
            kani::any(),
        )),
        _ => ProtocolResponse::Tcp(TcpProtocolResponse::new(any_ip(v6), kani::any(), kani::any(), any_opt_u8().map(TypeOfService))),
    }
}

fn ports_match(d: PortDirection, src: u16, dest: u16) -> bool {
    match d {
        PortDirection::FixedSrc(s) => s.0 == src,
        PortDirection::FixedDest(t) => t.0 == dest,
        PortDirection::FixedBoth(s, t) => s.0 == src && t.0 == dest,
        PortDirection::None => false,
    }
}

/// The receive decision for an ARBITRARY response (kind x protocol payload, every field symbolic)
/// against an arbitrary configuration and window: the real `validate`, `StrategyResponse::from`,
/// `check_trace_id` and `in_round` accept it iff it names this tracer (ICMP: its trace identifier
/// or 0; UDP/TCP: its target, its fixed port(s), the Dublin marker for IPv6) and a sequence inside
/// the current round's window; the derived sequence, responder, receive time, kind/code, is-target,
/// tos and checksums equal the response's fields per the configuration's rule.
fn recv_decision(kind: u8, which: u8, v6: bool) {
    let mut cfg = any_strategy_config(v6);
    cfg.protocol = match which {
        0 => Protocol::Icmp,
        1 => Protocol::Udp,
        _ => Protocol::Tcp,
    };
    kani::assume(accepted(&cfg));
    let st = any_state(cfg);
    kani::assume(inv_scalar(&st));
    let proto_resp = any_proto_resp(which, v6);
    let (recv, _, _) = any_time();
    let addr = any_ip(v6);
    let data = ResponseData::new(recv, addr, proto_resp.clone());
    let code: u8 = kani::any();
    let resp = match kind {
        0 => Response::TimeExceeded(data, IcmpPacketCode(code), None),
        1 => Response::DestinationUnreachable(data, IcmpPacketCode(code), None),
        2 => Response::EchoReply(data, IcmpPacketCode(code)),
        3 => Response::TcpReply(data),
        _ => Response::TcpRefused(data),
    };
    let strategy = Strategy::new(&cfg, noop_publish);
    let valid = strategy.validate(resp.data());
    let sr = StrategyResponse::from((resp, &cfg));
    let accepted_id = strategy.check_trace_id(sr.trace_id);
    let in_window = st.in_round(sr.sequence);
    // ---- specification
    let dublin6 = matches!(cfg.multipath_strategy, MultipathStrategy::Dublin) && v6;
    let (want_valid, want_id_ok, want_seq, want_ck) = match &proto_resp {
        ProtocolResponse::Icmp(i) => (true, i.identifier == cfg.trace_identifier.0 || i.identifier == 0, i.sequence, false),
        ProtocolResponse::Udp(u) => {
            let seq = match (cfg.multipath_strategy, cfg.port_direction) {
                (MultipathStrategy::Classic, PortDirection::FixedDest(_)) => u.src_port,
                (MultipathStrategy::Classic, _) => u.dest_port,
                (MultipathStrategy::Paris, _) => u.actual_udp_checksum,
                (MultipathStrategy::Dublin, _) => {
                    if v6 { cfg.initial_sequence.0.wrapping_add(u.payload_len) } else { u.identifier }
                }
            };
            (
                u.dest_addr == cfg.target_addr && ports_match(cfg.port_direction, u.src_port, u.dest_port) && (!dublin6 || u.has_magic),
                true,
                seq,
                matches!(cfg.multipath_strategy, MultipathStrategy::Dublin) && !v6,
            )
        }
        ProtocolResponse::Tcp(t) => (
            t.dest_addr == cfg.target_addr && ports_match(cfg.port_direction, t.src_port, t.dest_port),
            true,
            if matches!(cfg.port_direction, PortDirection::FixedSrc(_)) { t.dest_port } else { t.src_port },
            false,
        ),
    };
    assert!(valid == want_valid, "validate: target, fixed ports, Dublin marker");
    assert!(accepted_id == want_id_ok, "trace identifier gate");
    assert!(sr.sequence.0 == want_seq, "sequence recovered from the field the strategy prescribes");
    assert!(in_window == (u32::from(want_seq) >= u32::from(st.round_sequence.0) && u32::from(want_seq) < u32::from(st.round_sequence.0) + 512));
    assert!(sr.addr == addr && sr.received == recv, "responder and receive time");
    let want_kind = match kind {
        0 => IcmpPacketType::TimeExceeded(IcmpPacketCode(code)),
        1 => IcmpPacketType::Unreachable(IcmpPacketCode(code)),
        2 => IcmpPacketType::EchoReply(IcmpPacketCode(code)),
        _ => IcmpPacketType::NotApplicable,
    };
    assert!(sr.icmp_packet_type == want_kind, "kind and code");
    assert!(sr.is_target == (kind >= 2 || addr == cfg.target_addr), "is-target rule");
    assert!(sr.expected_udp_checksum.is_some() == want_ck && sr.actual_udp_checksum.is_some() == want_ck, "checksums only for Dublin/IPv4 UDP");
    if let ProtocolResponse::Udp(u) = &proto_resp {
        if want_ck {
            assert!(sr.expected_udp_checksum == Some(Checksum(u.expected_udp_checksum)));
            assert!(sr.actual_udp_checksum == Some(Checksum(u.actual_udp_checksum)));
        }
    }
    kani::cover!(valid && accepted_id && in_window, "accepted");
    kani::cover!(valid && accepted_id && !in_window, "outside the window");
    kani::cover!(!valid || !accepted_id, "foreign");
    std::mem::forget(st);
    std::mem::forget(sr);
}

macro_rules! recv_decision_harness {
    ($name:ident, $kind:expr, $which:expr, $v6:expr) => {
        #[kani::proof]
        #[kani::unwind(18)]
        fn $name() {
            recv_decision($kind, $which, $v6);
        }
    };
}
recv_decision_harness!(c03_recv_decision_te_icmp_v4, 0, 0, false);
recv_decision_harness!(c03_recv_decision_te_udp_v4, 0, 1, false);
recv_decision_harness!(c03_recv_decision_te_udp_v6, 0, 1, true);
recv_decision_harness!(c03_recv_decision_te_tcp_v6, 0, 2, true);
recv_decision_harness!(c03_recv_decision_du_udp_v4, 1, 1, false);
recv_decision_harness!(c03_recv_decision_du_icmp_v6, 1, 0, true);
recv_decision_harness!(c03_recv_decision_er_icmp_v4, 2, 0, false);
recv_decision_harness!(c03_recv_decision_er_icmp_v6, 2, 0, true);
recv_decision_harness!(c03_recv_decision_tcp_reply_v4, 3, 2, false);
recv_decision_harness!(c03_recv_decision_tcp_refused_v6, 4, 2, true);

// =========================================================================== C02: the two tables are inverse

/// For EVERY sequence / round / port / address / identifier (all symbolic, one query per cell
/// family): the identity `probe_data` puts into a probe, carried back by a conforming quotation
/// (the fields named by the wire contract of C11 / the extract harnesses), is recognised as exactly
/// that probe: `validate` accepts, the trace id is accepted, the recovered sequence is the probe's.
/// Negative twins: another destination address, another fixed port, a missing Dublin marker, or a
/// different non-zero ICMP identifier is rejected.
fn identity_roundtrip(which: u8, v6: bool) {
    let mut cfg = any_strategy_config(v6);
    cfg.protocol = match which {
        0 => Protocol::Icmp,
        1 => Protocol::Udp,
        _ => Protocol::Tcp,
    };
    kani::assume(accepted(&cfg));
    let st = any_state(cfg);
    kani::assume(inv_scalar(&st));
    kani::assume(st.round_has_capacity());
    let (src, dest, id, flags) = st.probe_data();
    let seq = st.sequence;
    let dublin = matches!(cfg.multipath_strategy, MultipathStrategy::Dublin);
    let paris = matches!(cfg.multipath_strategy, MultipathStrategy::Paris);
    let strategy = Strategy::new(&cfg, noop_publish);
    let other_addr = any_ip(v6);
    kani::assume(other_addr != cfg.target_addr);
    let bump: u16 = kani::any();
    kani::assume(bump != 0);
    let (good, bad_addr, bad_port, bad_magic) = match which {
        0 => {
            let g = ProtocolResponse::Icmp(IcmpProtocolResponse::new(id.0, seq.0, None));
            (g.clone(), None, None, None)
        }
        1 => {
            assert!(paris == flags.contains(Flags::PARIS_CHECKSUM), "Paris probes carry the checksum flag");
            assert!(dublin == flags.contains(Flags::DUBLIN_IPV6_PAYLOAD_LENGTH));
            // wire contract: IP identification = probe identifier (IPv4), UDP ports = probe ports,
            // UDP checksum = sequence (Paris), UDP payload length = sequence - initial + MAGIC (Dublin/IPv6)
            let ip_id = if v6 { 0 } else { id.0 };
            let ck = if paris { seq.0 } else { kani::any() };
            let plen = if dublin && v6 { seq.0 - cfg.initial_sequence.0 } else { kani::any() };
            let magic = if dublin && v6 { true } else { kani::any() };
            let mk = |addr: IpAddr, s: u16, d: u16, m: bool| {
                ProtocolResponse::Udp(UdpProtocolResponse::new(ip_id, addr, s, d, None, kani::any(), ck, plen, m))
            };
            let (bs, bd) = match cfg.port_direction {
                PortDirection::FixedSrc(_) => (src.0.wrapping_add(bump), dest.0),
                PortDirection::FixedDest(_) => (src.0, dest.0.wrapping_add(bump)),
                _ => if kani::any() { (src.0.wrapping_add(bump), dest.0) } else { (src.0, dest.0.wrapping_add(bump)) },
            };
            (
                mk(cfg.target_addr, src.0, dest.0, magic),
                Some(mk(other_addr, src.0, dest.0, magic)),
                Some(mk(cfg.target_addr, bs, bd, magic)),
                if dublin && v6 { Some(mk(cfg.target_addr, src.0, dest.0, false)) } else { None },
            )
        }
        _ => {
            let mk = |addr: IpAddr, s: u16, d: u16| ProtocolResponse::Tcp(TcpProtocolResponse::new(addr, s, d, None));
            let (bs, bd) = match cfg.port_direction {
                PortDirection::FixedSrc(_) => (src.0.wrapping_add(bump), dest.0),
                _ => (src.0, dest.0.wrapping_add(bump)),
            };
            (mk(cfg.target_addr, src.0, dest.0), Some(mk(other_addr, src.0, dest.0)), Some(mk(cfg.target_addr, bs, bd)), None)
        }
    };
    let data = |p: ProtocolResponse| ResponseData::new(UNIX_EPOCH, other_addr, p);
    // positive: recognised as exactly this probe
    let d = data(good.clone());
    assert!(strategy.validate(&d), "a conforming quotation of our probe validates");
    let psr = ProtocolStrategyResponse::from((good, &cfg));
    assert!(strategy.check_trace_id(psr.trace_id), "its trace id is accepted");
    assert!(psr.sequence == seq, "the recovered sequence is the probe's sequence");
    assert!(st.in_round(psr.sequence), "and it is inside the current round");
    // negative twins
    if let Some(b) = bad_addr {
        assert!(!strategy.validate(&data(b)), "other destination is never accepted");
    }
    if let Some(b) = bad_port {
        assert!(!strategy.validate(&data(b)), "other fixed port is never accepted");
    }
    if let Some(b) = bad_magic {
        assert!(!strategy.validate(&data(b)), "missing Dublin marker is never accepted");
    }
    if which == 0 {
        let foreign: u16 = kani::any();
        kani::assume(foreign != 0 && foreign != cfg.trace_identifier.0);
        assert!(!strategy.check_trace_id(TraceId(foreign)), "another tracer's non-zero identifier is rejected");
        assert!(id == cfg.trace_identifier);
    }
    kani::cover!(which != 1 || paris, "paris");
    kani::cover!(which != 1 || dublin, "dublin");
    kani::cover!(which != 2 || seq.0 == 65533, "largest sequence (TCP re-issues can use the whole window)");
    std::mem::forget(st);
}

macro_rules! identity_roundtrip_harness {
    ($name:ident, $which:expr, $v6:expr) => {
        #[kani::proof]
        #[kani::unwind(18)]
        fn $name() {
            identity_roundtrip($which, $v6);
        }
    };
}
identity_roundtrip_harness!(c02_identity_icmp_v4, 0, false);
identity_roundtrip_harness!(c02_identity_icmp_v6, 0, true);
identity_roundtrip_harness!(c02_identity_udp_v4, 1, false);
identity_roundtrip_harness!(c02_identity_udp_v6, 1, true);
identity_roundtrip_harness!(c02_identity_tcp_v4, 2, false);
identity_roundtrip_harness!(c02_identity_tcp_v6, 2, true);

// =========================================================================== C16: accepted configurations can run

/// For EVERY configuration the builder accepts (library users: builder validation only — including
/// first_ttl > max_ttl and max_inflight = 0, which the CLI layer rejects) and every sequence / round:
/// computing a probe's identity never reaches an `unimplemented!()` arm and never overflows.
#[kani::proof]
#[kani::unwind(3)]
fn c16_probe_data_total_on_accepted_configs() {
    let cfg = any_strategy_config(kani::any());
    kani::assume(builder_accepts(&cfg));
    let st = any_state(cfg);
    let (src, dest, id, flags) = st.probe_data();
    if matches!(cfg.protocol, Protocol::Icmp) {
        assert!(id == cfg.trace_identifier && src.0 == 0 && dest.0 == 0 && flags.is_empty());
    }
    kani::cover!(matches!(cfg.port_direction, PortDirection::FixedBoth(_, _)), "fixed both (paris / dublin)");
    std::mem::forget(st);
}

/// The first steps of a run for every builder-accepted configuration, from the initial state
/// (`TracerState::new`'s field values, initial sequence at a representative): a send step, a
/// publish and the advance to the next round complete without panic, and every ttl handed to the
/// network satisfies the aggregator's indexing contract 1 <= ttl <= 254
/// (`hops[usize::from(ttl) - 1]` over a 254-entry table).
fn accepted_config_first_round(initial: u16, proto: u8, v6: bool) {
    let mut cfg = any_strategy_config(v6);
    cfg.initial_sequence = Sequence(initial);
    cfg.protocol = match proto {
        0 => Protocol::Icmp,
        1 => Protocol::Udp,
        _ => Protocol::Tcp,
    };
    kani::assume(builder_accepts(&cfg));
    let mut st = TracerState {
        config: cfg,
        buffer: [NOTSENT; 512],
        sequence: cfg.initial_sequence,
        round_sequence: cfg.initial_sequence,
        ttl: cfg.first_ttl,
        round: RoundId(0),
        round_start: UNIX_EPOCH,
        target_found: false,
        max_received_ttl: None,
        target_ttl: None,
        received_time: None,
    };
    let o0 = if kani::any() { SendOutcome::Ok } else { SendOutcome::Fatal };
    let mut net = SymNet::new([o0, SendOutcome::Fatal, SendOutcome::Fatal]);
    let seen = std::cell::Cell::new(None::<Published>);
    let strategy = Strategy::new(&cfg, |r: &Round<'_>| {
        seen.set(Some(Published { n: r.probes.len(), ptr: 0, largest_ttl: r.largest_ttl.0, target_found_reason: false }));
    });
    let res = strategy.send_request(&mut net, &mut st);
    if net.calls > 0 {
        let p = net.probes[0].clone().unwrap();
        assert!(p.ttl.0 >= 1 && p.ttl.0 <= MAX_TTL, "ttl within the aggregator's table");
        assert!(p.ttl == cfg.first_ttl && p.sequence == cfg.initial_sequence);
    }
    strategy.publish_trace(&st);
    let p = seen.get().unwrap();
    assert!(p.n == net.calls && p.largest_ttl == 0);
    st.advance_round(cfg.first_ttl);
    kani::cover!(net.calls == 1, "first probe sent");
    kani::cover!(net.calls == 0, "nothing to send (first_ttl > max_ttl or max_inflight = 0)");
    std::mem::forget(st);
    std::mem::forget(net);
    std::mem::forget(res);
}

macro_rules! accepted_config_harness {
    ($name:ident, $initial:expr, $proto:expr, $v6:expr) => {
        #[kani::proof]
        #[kani::unwind(2)]
        #[kani::stub(std::time::SystemTime::now, clock::now_stub)]
        fn $name() {
            accepted_config_first_round($initial, $proto, $v6);
        }
    };
}
accepted_config_harness!(c16_accepted_config_icmp_v4, 33434, 0, false);
accepted_config_harness!(c16_accepted_config_udp_v6, 64511, 1, true);
accepted_config_harness!(c16_accepted_config_udp_v4, 0, 1, false);
accepted_config_harness!(c16_accepted_config_tcp_v4, 33434, 2, false);

// =========================================================================== thorough tier

/// Base case of the induction: the real `TracerState::new` (for every accepted configuration)
/// satisfies INV, starts round 0 at the initial sequence with an all-NotSent buffer.
/// (Pays the 512-iteration `from_fn` constructor: minutes of symbolic execution.)
#[kani::proof]
#[kani::unwind(514)]
#[kani::stub(std::time::SystemTime::now, clock::now_stub)]
fn c07_base_case_new_satisfies_inv() {
    let cfg = any_strategy_config(kani::any());
    kani::assume(accepted(&cfg));
    let st = TracerState::new(cfg);
    assert!(inv_scalar(&st), "TracerState::new satisfies INV");
    assert!(st.round.0 == 0 && st.sequence == cfg.initial_sequence && st.round_sequence == cfg.initial_sequence);
    assert!(st.ttl == cfg.first_ttl && !st.target_found && st.target_ttl.is_none() && st.max_received_ttl.is_none());
    assert!(st.probes().is_empty());
    assert!(matches!(st.buffer[0], ProbeStatus::NotSent) && matches!(st.buffer[511], ProbeStatus::NotSent));
    assert!(is_round_start(&st));
    kani::cover!(true, "reachable");
    std::mem::forget(st);
}

// more window positions for the slot-content harnesses
next_probe_slot_harness!(t07_next_probe_slot_1_254, 1, 254, false);
next_probe_slot_harness!(t07_next_probe_slot_255_255, 255, 255, true);
next_probe_slot_harness!(t07_next_probe_slot_256_256, 256, 256, false);
next_probe_slot_harness!(t07_next_probe_slot_63999_510, 63999, 510, false);
next_probe_slot_harness!(t07_next_probe_slot_65021_2, 65021, 2, true);
reissue_probe_slot_harness!(c07_reissue_probe_slot_1_2, 1, 2, true);
reissue_probe_slot_harness!(c07_reissue_probe_slot_64511_255, 64511, 255, false);
reissue_probe_slot_harness!(c07_reissue_probe_slot_65022_256, 65022, 256, false);
reissue_probe_slot_harness!(c07_reissue_probe_slot_255_255, 255, 255, true);
send_step_harness!(t06_send_step_icmp_65022_0, 65022, 0, 0, false);
send_step_harness!(t06_send_step_icmp_1_253, 1, 253, 0, true);
send_step_harness!(t06_send_step_udp_0_1, 0, 1, 1, false);
send_step_harness!(t06_send_step_udp_64511_100, 64511, 100, 1, true);
send_step_tcp_harness!(t06_send_step_tcp_1_255_fresh, 1, 255, true, 0);
send_step_tcp_harness!(t06_send_step_tcp_64511_256_reissue_ok, 64511, 256, false, 1);
send_step_tcp_harness!(t06_send_step_tcp_0_509_reissue_failed, 0, 509, false, 2);
complete_probe_awaited_harness!(t01_complete_probe_awaited_1_255_254, 1, 255, 254, false);
complete_probe_awaited_harness!(t01_complete_probe_awaited_64511_3_1, 64511, 3, 1, true);
complete_probe_ignored_harness!(t03_duplicate_ignored_0_2_0, 0, 2, 0, 0, true);
complete_probe_ignored_harness!(t03_never_sent_ignored_65022_100_510, 65022, 100, 510, 1, false);
complete_probe_ignored_harness!(t03_skipped_ignored_1_400_398, 1, 400, 398, 2, true);
complete_probe_ignored_harness!(t03_failed_ignored_64511_255_100, 64511, 255, 100, 3, false);
recv_decision_harness!(t03_recv_decision_te_icmp_v6, 0, 0, true);
recv_decision_harness!(t03_recv_decision_te_tcp_v4, 0, 2, false);
recv_decision_harness!(t03_recv_decision_du_udp_v6, 1, 1, true);
recv_decision_harness!(t03_recv_decision_du_icmp_v4, 1, 0, false);
recv_decision_harness!(t03_recv_decision_du_tcp_v4, 1, 2, false);
recv_decision_harness!(t03_recv_decision_du_tcp_v6, 1, 2, true);
recv_decision_harness!(t03_recv_decision_tcp_reply_v6, 3, 2, true);
recv_decision_harness!(t03_recv_decision_tcp_refused_v4, 4, 2, false);

// =========================================================================== C01 / C03: recv_response end to end

/// The whole receive step `recv_response` (decision AND effect composed by the real code) at a
/// concrete window position: the network hands over an ICMP-payload response (kind symbolic among
/// TimeExceeded / DestinationUnreachable / EchoReply; identifier, code, responder, receive time
/// symbolic) naming the sequence of slot j, which holds an Awaited probe.  The probe is completed
/// iff the response carries this tracer's identifier (or 0); otherwise every slot and the whole
/// bookkeeping are unchanged.
fn recv_response_e2e(rs: u16, size: u16, j: u16, v6: bool) {
    let mut cfg = any_strategy_config(v6);
    cfg.protocol = Protocol::Icmp;
    kani::assume(accepted(&cfg));
    let mut st = any_state_at(cfg, rs, size);
    kani::assume(inv_scalar(&st));
    let awaited = any_probe_at(&st, j);
    kani::assume(awaited.ttl.0 >= cfg.first_ttl.0 && awaited.ttl.0 < st.ttl.0);
    st.buffer[usize::from(j)] = ProbeStatus::Awaited(awaited.clone());
    let ident: u16 = kani::any();
    let (recv, _, _) = any_time();
    let addr = any_ip(v6);
    let code: u8 = kani::any();
    let kind: u8 = kani::any();
    kani::assume(kind < 3);
    let data = ResponseData::new(recv, addr, ProtocolResponse::Icmp(IcmpProtocolResponse::new(ident, rs + j, None)));
    let resp = match kind {
        0 => Response::TimeExceeded(data, IcmpPacketCode(code), None),
        1 => Response::DestinationUnreachable(data, IcmpPacketCode(code), None),
        _ => Response::EchoReply(data, IcmpPacketCode(code)),
    };
    let mut net = SymNet::new([SendOutcome::Ok, SendOutcome::Ok, SendOutcome::Ok]);
    net.recv = Some(Ok(Some(resp)));
    let strategy = Strategy::new(&cfg, noop_publish);
    let (tf0, mr0, tt0) = (st.target_found, st.max_received_ttl, st.target_ttl);
    let res = strategy.recv_response(&mut net, &mut st);
    assert!(res.is_ok() && net.recv_calls == 1);
    let ours = ident == cfg.trace_identifier.0 || ident == 0;
    match &st.buffer[usize::from(j)] {
        ProbeStatus::Complete(c) => {
            assert!(ours, "a response of another tracer never completes a probe");
            assert!(c.sequence == awaited.sequence && c.ttl == awaited.ttl && c.round == awaited.round && c.sent == awaited.sent);
            assert!(ip_eq(c.host, addr) && c.received == recv);
            let want_kind = match kind {
                0 => IcmpPacketType::TimeExceeded(IcmpPacketCode(code)),
                1 => IcmpPacketType::Unreachable(IcmpPacketCode(code)),
                _ => IcmpPacketType::EchoReply(IcmpPacketCode(code)),
            };
            assert!(c.icmp_packet_type == want_kind);
            let is_target = kind == 2 || ip_eq(addr, cfg.target_addr);
            assert!(st.target_found == (tf0 || is_target));
            assert!(st.received_time == Some(recv));
        }
        ProbeStatus::Awaited(a) => {
            assert!(!ours, "a genuine response to an awaited probe of this round completes it");
            assert!(probe_eq(a, &awaited));
            assert!(st.target_found == tf0 && st.max_received_ttl == mr0 && st.target_ttl == tt0 && st.received_time.is_none());
        }
        _ => assert!(false, "slot corrupted"),
    }
    kani::cover!(ours && kind == 2, "echo reply accepted");
    kani::cover!(!ours, "foreign identifier rejected");
    std::mem::forget(st);
    std::mem::forget(net);
    std::mem::forget(res);
}

macro_rules! recv_response_e2e_harness {
    ($name:ident, $rs:expr, $size:expr, $j:expr, $v6:expr) => {
        #[kani::proof]
        #[kani::unwind(2)]
        fn $name() {
            recv_response_e2e($rs, $size, $j, $v6);
        }
    };
}
// (not instantiated: the composed step on an AWAITED slot needs unwind >= 17 for the address
// comparison inside StrategyResponse::from and unwind 2 for the slot clone at the same time, and
// exceeds 17 GB / 12 min; the accepted path is decided as decision o effect, see DESIGN 1.4)

/// The same composed step for a response naming a sequence OUTSIDE the current window (just below
/// the round's first sequence = the previous round's last, 0, just beyond the 512-slot window,
/// 65535): nothing changes.  (Concrete sequences: with a symbolic one CBMC explores the slot access
/// at a symbolic index although `in_round` forbids it; ALL sequences are covered by the decision
/// harnesses c03_recv_decision_* and by c07_window_predicates.)
fn recv_response_out_of_window(rs: u16, size: u16, seq: u16) {
    let mut cfg = any_strategy_config(false);
    cfg.protocol = Protocol::Icmp;
    kani::assume(accepted(&cfg));
    let mut st = any_state_at(cfg, rs, size);
    kani::assume(inv_scalar(&st));
    let obs = any_probe_at(&st, 0);
    st.buffer[0] = ProbeStatus::Awaited(obs.clone());
    let (recv, _, _) = any_time();
    let data = ResponseData::new(recv, any_ip(false), ProtocolResponse::Icmp(IcmpProtocolResponse::new(cfg.trace_identifier.0, seq, None)));
    let mut net = SymNet::new([SendOutcome::Ok, SendOutcome::Ok, SendOutcome::Ok]);
    net.recv = Some(Ok(Some(Response::EchoReply(data, IcmpPacketCode(0)))));
    let strategy = Strategy::new(&cfg, noop_publish);
    let (tf0, mr0, tt0) = (st.target_found, st.max_received_ttl, st.target_ttl);
    let res = strategy.recv_response(&mut net, &mut st);
    assert!(res.is_ok());
    assert!(awaited_is(&st.buffer[0], &obs), "a late or never-valid sequence changes no probe");
    assert!(st.target_found == tf0 && st.max_received_ttl == mr0 && st.target_ttl == tt0 && st.received_time.is_none());
    kani::cover!(true, "reachable");
    std::mem::forget(st);
    std::mem::forget(net);
    std::mem::forget(res);
}

#[kani::proof]
#[kani::unwind(2)]
fn t03_recv_response_previous_round_ignored() {
    recv_response_out_of_window(33434, 3, 33433);
}
#[kani::proof]
#[kani::unwind(2)]
fn t03_recv_response_sequence_zero_ignored() {
    recv_response_out_of_window(33434, 3, 0);
}
#[kani::proof]
#[kani::unwind(2)]
fn c03_recv_response_beyond_window_ignored() {
    recv_response_out_of_window(33434, 3, 33434 + 512);
}
#[kani::proof]
#[kani::unwind(2)]
fn t03_recv_response_sequence_max_ignored() {
    recv_response_out_of_window(64000, 100, 65535);
}

/// Reset harness-side statics between native witness-search trials.
fn verif_reset_statics() {
    clock::set(0, 0, 0);
    clock::set(1, 0, 0);
    clock::set(2, 0, 0);
}

/// The composed receive step for an echo reply that names an AWAITED in-window probe but carries
/// another tracer's non-zero identifier: the identifier gate is wired in `recv_response`, so
/// nothing changes (the probe stays Awaited, bookkeeping untouched).
#[kani::proof]
#[kani::unwind(2)]
fn c03_recv_response_foreign_id_ignored() {
    let mut cfg = any_strategy_config(false);
    cfg.protocol = Protocol::Icmp;
    kani::assume(accepted(&cfg));
    let mut st = any_state_at(cfg, 33434, 3);
    kani::assume(inv_scalar(&st));
    let awaited = any_probe_at(&st, 1);
    kani::assume(awaited.ttl.0 >= cfg.first_ttl.0 && awaited.ttl.0 < st.ttl.0);
    st.buffer[1] = ProbeStatus::Awaited(awaited.clone());
    let foreign: u16 = kani::any();
    kani::assume(foreign != 0 && foreign != cfg.trace_identifier.0);
    let (recv, _, _) = any_time();
    let data = ResponseData::new(recv, any_ip(false), ProtocolResponse::Icmp(IcmpProtocolResponse::new(foreign, 33435, None)));
    let mut net = SymNet::new([SendOutcome::Ok, SendOutcome::Ok, SendOutcome::Ok]);
    net.recv = Some(Ok(Some(Response::EchoReply(data, IcmpPacketCode(0)))));
    let strategy = Strategy::new(&cfg, noop_publish);
    let (tf0, mr0, tt0) = (st.target_found, st.max_received_ttl, st.target_ttl);
    let res = strategy.recv_response(&mut net, &mut st);
    assert!(res.is_ok());
    assert!(awaited_is(&st.buffer[1], &awaited), "another tracer's response never completes a probe");
    assert!(st.target_found == tf0 && st.max_received_ttl == mr0 && st.target_ttl == tt0 && st.received_time.is_none());
    kani::cover!(true, "reachable");
    std::mem::forget(st);
    std::mem::forget(net);
    std::mem::forget(res);
}

// (A third gate harness - a UDP/TCP quotation with a foreign port for an AWAITED probe, i.e. the
// `validate` call as wired in `recv_response` - needs unwind >= 5 for the address comparison inside
// `validate` and then explores the slot clone loops 5 deep: solver out of memory at 24 GB.  That
// `recv_response` calls `validate` before anything else is therefore by reading; what `validate`
// decides is c03_recv_decision_* / c02_identity_*.)
// (also tried with concrete addresses so that the comparison folds: still out of memory at 24 GB.)
