// Harness-side `Socket` implementations (environment model, DESIGN 1.3-3).
use crate::error::{IoError, IoOperation, IoResult};
use crate::net::socket::{Socket, SocketError};

/// What the harness tells the sockets to do / what they observed (single-threaded `static mut`).
#[allow(static_mut_refs)]
pub(super) mod sockstate {
    pub const RBUF: usize = if option_env!("VERIF_THOROUGH").is_some() { 96 } else { 72 };
    /// bytes the next `read` / `recv_from` returns
    pub static mut READ_BYTES: [u8; RBUF] = [0; RBUF];
    pub static mut READ_LEN: usize = 0;
    pub static mut READ_ERR: u8 = 0; // 0 = data, 1 = WouldBlock, 2 = other error
    pub static mut RECV_ADDR_KIND: u8 = 0; // 0 = V6 addr, 1 = None
    pub static mut RECV_ADDR: u128 = 0;
    // observations of the send side
    pub static mut SEND_CALLS: u32 = 0;
    pub static mut TTL_SET: Option<u32> = None;
    pub static mut TOS_SET: Option<u32> = None;
    pub static mut HOPS_SET: Option<u8> = None;
    pub static mut BIND_ADDR: Option<std::net::SocketAddr> = None;
    pub static mut CONNECT_ADDR: Option<std::net::SocketAddr> = None;
    pub static mut SEND_ADDR: Option<std::net::SocketAddr> = None;
    pub static mut NEW_CALLS: u32 = 0;
    /// outcome of bind / connect / send_to / set_*: 0 = Ok, else an error kind code (see `mk_err`)
    pub static mut BIND_OUTCOME: u8 = 0;
    pub static mut CONNECT_OUTCOME: u8 = 0;
    pub static mut SEND_OUTCOME: u8 = 0;
    // TCP handshake observation model
    /// what `take_error` reports: 0 = connected (None), 1 = ConnectionRefused, 2 = HostUnreachable, 3 = Other
    pub static mut TAKE_ERROR: u8 = 0;
    /// what `peer_addr` reports
    pub static mut PEER_ADDR: Option<std::net::SocketAddr> = None;
    /// what `icmp_error_info` reports
    pub static mut ICMP_ERROR_ADDR: Option<std::net::IpAddr> = None;
    /// `is_writable` call k returns bit k of this mask
    pub static mut WRITABLE_MASK: u8 = 0;
    pub static mut WRITABLE_CALLS: u32 = 0;
    pub static mut SHUTDOWN_CALLS: u32 = 0;
}

/// Error kinds a socket call may fail with (representatives of every class the mapper distinguishes).
pub(super) fn mk_err(code: u8, addr: std::net::SocketAddr, op: u8) -> IoError {
    use std::io::ErrorKind as K;
    let e = match code {
        1 => std::io::Error::from(K::AddrInUse),
        2 => std::io::Error::from(K::AddrNotAvailable),
        3 => std::io::Error::from_raw_os_error(113), // EHOSTUNREACH
        4 => std::io::Error::from_raw_os_error(101), // ENETUNREACH
        5 => std::io::Error::from_raw_os_error(115), // EINPROGRESS
        6 => std::io::Error::from(K::InvalidInput),
        _ => std::io::Error::from(K::PermissionDenied),
    };
    match op {
        0 => IoError::Bind(e, addr),
        1 => IoError::Connect(e, addr),
        _ => IoError::SendTo(e, addr),
    }
}

/// A socket whose `send_to` hands the bytes to a harness-provided checker and whose other calls
/// are recorded; `read` / `recv_from` return the armed symbolic bytes.
pub(super) struct HSock;

#[allow(static_mut_refs)]
impl Socket for HSock {
    fn new_icmp_send_socket_ipv4(_raw: bool) -> IoResult<Self> { unsafe { sockstate::NEW_CALLS += 1 }; Ok(Self) }
    fn new_icmp_send_socket_ipv6(_raw: bool) -> IoResult<Self> { unsafe { sockstate::NEW_CALLS += 1 }; Ok(Self) }
    fn new_udp_send_socket_ipv4(_raw: bool) -> IoResult<Self> { unsafe { sockstate::NEW_CALLS += 1 }; Ok(Self) }
    fn new_udp_send_socket_ipv6(_raw: bool) -> IoResult<Self> { unsafe { sockstate::NEW_CALLS += 1 }; Ok(Self) }
    fn new_recv_socket_ipv4(_addr: std::net::Ipv4Addr, _raw: bool) -> IoResult<Self> { Ok(Self) }
    fn new_recv_socket_ipv6(_addr: std::net::Ipv6Addr, _raw: bool) -> IoResult<Self> { Ok(Self) }
    fn new_stream_socket_ipv4() -> IoResult<Self> { unsafe { sockstate::NEW_CALLS += 1 }; Ok(Self) }
    fn new_stream_socket_ipv6() -> IoResult<Self> { unsafe { sockstate::NEW_CALLS += 1 }; Ok(Self) }
    fn new_udp_dgram_socket_ipv4() -> IoResult<Self> { Ok(Self) }
    fn new_udp_dgram_socket_ipv6() -> IoResult<Self> { Ok(Self) }
    fn bind(&mut self, address: std::net::SocketAddr) -> IoResult<()> {
        unsafe {
            sockstate::BIND_ADDR = Some(address);
            if sockstate::BIND_OUTCOME == 0 { Ok(()) } else { Err(mk_err(sockstate::BIND_OUTCOME, address, 0)) }
        }
    }
    fn set_tos(&mut self, tos: u32) -> IoResult<()> { unsafe { sockstate::TOS_SET = Some(tos) }; Ok(()) }
    fn set_ttl(&mut self, ttl: u32) -> IoResult<()> { unsafe { sockstate::TTL_SET = Some(ttl) }; Ok(()) }
    fn set_reuse_port(&mut self, _reuse: bool) -> IoResult<()> { Ok(()) }
    fn set_header_included(&mut self, _included: bool) -> IoResult<()> { Ok(()) }
    fn set_unicast_hops_v6(&mut self, hops: u8) -> IoResult<()> { unsafe { sockstate::HOPS_SET = Some(hops) }; Ok(()) }
    fn connect(&mut self, address: std::net::SocketAddr) -> IoResult<()> {
        unsafe {
            sockstate::CONNECT_ADDR = Some(address);
            if sockstate::CONNECT_OUTCOME == 0 { Ok(()) } else { Err(mk_err(sockstate::CONNECT_OUTCOME, address, 1)) }
        }
    }
    fn send_to(&mut self, buf: &[u8], addr: std::net::SocketAddr) -> IoResult<()> {
        unsafe {
            sockstate::SEND_CALLS += 1;
            sockstate::SEND_ADDR = Some(addr);
        }
        super::on_send(buf);
        unsafe {
            if sockstate::SEND_OUTCOME == 0 { Ok(()) } else { Err(mk_err(sockstate::SEND_OUTCOME, addr, 2)) }
        }
    }
    fn is_readable(&mut self, _timeout: std::time::Duration) -> IoResult<bool> { Ok(true) }
    fn is_writable(&mut self) -> IoResult<bool> {
        unsafe {
            let k = sockstate::WRITABLE_CALLS;
            sockstate::WRITABLE_CALLS += 1;
            Ok(k < 8 && (sockstate::WRITABLE_MASK >> k) & 1 == 1)
        }
    }
    fn recv_from(&mut self, buf: &mut [u8]) -> IoResult<(usize, Option<std::net::SocketAddr>)> {
        unsafe {
            match sockstate::READ_ERR {
                1 => return Err(IoError::Other(std::io::Error::from(std::io::ErrorKind::WouldBlock), IoOperation::RecvFrom)),
                2 => return Err(IoError::Other(std::io::Error::from(std::io::ErrorKind::PermissionDenied), IoOperation::RecvFrom)),
                _ => {}
            }
            let mut i = 0;
            while i < sockstate::RBUF {
                buf[i] = sockstate::READ_BYTES[i];
                i += 1;
            }
            let addr = if sockstate::RECV_ADDR_KIND == 0 {
                Some(std::net::SocketAddr::V6(std::net::SocketAddrV6::new(std::net::Ipv6Addr::from(sockstate::RECV_ADDR), 0, 0, 0)))
            } else {
                None
            };
            Ok((sockstate::READ_LEN, addr))
        }
    }
    fn read(&mut self, buf: &mut [u8]) -> IoResult<usize> {
        unsafe {
            match sockstate::READ_ERR {
                1 => return Err(IoError::Other(std::io::Error::from(std::io::ErrorKind::WouldBlock), IoOperation::Read)),
                2 => return Err(IoError::Other(std::io::Error::from(std::io::ErrorKind::PermissionDenied), IoOperation::Read)),
                _ => {}
            }
            let mut i = 0;
            while i < sockstate::RBUF {
                buf[i] = sockstate::READ_BYTES[i];
                i += 1;
            }
            Ok(sockstate::READ_LEN)
        }
    }
    fn shutdown(&mut self) -> IoResult<()> { unsafe { sockstate::SHUTDOWN_CALLS += 1 }; Ok(()) }
    fn peer_addr(&mut self) -> IoResult<Option<std::net::SocketAddr>> { Ok(unsafe { sockstate::PEER_ADDR }) }
    fn take_error(&mut self) -> IoResult<Option<SocketError>> {
        Ok(match unsafe { sockstate::TAKE_ERROR } {
            0 => None,
            1 => Some(SocketError::ConnectionRefused),
            2 => Some(SocketError::HostUnreachable),
            _ => Some(SocketError::Other(std::io::Error::from(std::io::ErrorKind::PermissionDenied))),
        })
    }
    fn icmp_error_info(&mut self) -> IoResult<std::net::IpAddr> {
        Ok(unsafe { sockstate::ICMP_ERROR_ADDR }.unwrap_or(std::net::IpAddr::V4(std::net::Ipv4Addr::UNSPECIFIED)))
    }
}

/// Reset every observation / outcome static (between native witness-search trials).
#[allow(static_mut_refs)]
pub(super) fn reset() {
    unsafe {
        sockstate::READ_LEN = 0;
        sockstate::READ_ERR = 0;
        sockstate::RECV_ADDR_KIND = 0;
        sockstate::RECV_ADDR = 0;
        sockstate::SEND_CALLS = 0;
        sockstate::TTL_SET = None;
        sockstate::TOS_SET = None;
        sockstate::HOPS_SET = None;
        sockstate::BIND_ADDR = None;
        sockstate::CONNECT_ADDR = None;
        sockstate::SEND_ADDR = None;
        sockstate::NEW_CALLS = 0;
        sockstate::BIND_OUTCOME = 0;
        sockstate::CONNECT_OUTCOME = 0;
        sockstate::SEND_OUTCOME = 0;
        sockstate::TAKE_ERROR = 0;
        sockstate::PEER_ADDR = None;
        sockstate::ICMP_ERROR_ADDR = None;
        sockstate::WRITABLE_MASK = 0;
        sockstate::WRITABLE_CALLS = 0;
        sockstate::SHUTDOWN_CALLS = 0;
    }
}
