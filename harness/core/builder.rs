// Proof harnesses inside `builder`.  Property: C16 (builder validation restated = real validation).
use super::*;
use crate::{MultipathStrategy, PortDirection, Protocol};
use crate::types::Port;

fn stub_format(_args: std::fmt::Arguments<'_>) -> String {
    String::new()
}

/// If a change makes `build()` ACCEPT an unsupported combination, the accepting path constructs the
/// shared `State` (HashMap / IndexMap / 254 hops), which CBMC cannot get through in reasonable time:
/// the counterexample would show up as a timeout instead of a violation.  The state constructor is
/// therefore cut to an empty `State` and the hasher keys made arbitrary (the OS random source is a
/// syscall); neither is read by the validation this harness is about.
fn stub_state_new(_cfg: crate::config::StateConfig) -> crate::state::State {
    crate::state::State::default()
}
fn stub_random_state_new() -> std::hash::RandomState {
    let keys: (u64, u64) = (kani::any(), kani::any());
    unsafe { std::mem::transmute::<(u64, u64), std::hash::RandomState>(keys) }
}

fn any_protocol() -> Protocol {
    match kani::any::<u8>() % 3 {
        0 => Protocol::Icmp,
        1 => Protocol::Udp,
        _ => Protocol::Tcp,
    }
}
fn any_multipath() -> MultipathStrategy {
    match kani::any::<u8>() % 3 {
        0 => MultipathStrategy::Classic,
        1 => MultipathStrategy::Paris,
        _ => MultipathStrategy::Dublin,
    }
}
fn any_port_direction() -> PortDirection {
    match kani::any::<u8>() % 4 {
        0 => PortDirection::None,
        1 => PortDirection::FixedSrc(Port(kani::any())),
        2 => PortDirection::FixedDest(Port(kani::any())),
        _ => PortDirection::FixedBoth(Port(kani::any()), Port(kani::any())),
    }
}

/// The REJECTING half of `Builder::build` for every parameter combination: every configuration that
/// would reach an `unimplemented!()` arm or underflow once tracing has started (no port direction
/// for UDP/TCP, FixedBoth for classic UDP or TCP, first_ttl = 0, ttl or initial sequence beyond the
/// limits) is rejected up front with a configuration error.  (The accepting path constructs the
/// shared `State` and is not needed here: `c16_accepted_config_*` run the state machine for every
/// configuration that passes this same predicate.)
#[kani::proof]
#[kani::unwind(3)]
#[kani::stub(alloc::fmt::format, stub_format)]
#[kani::stub(crate::state::State::new, stub_state_new)]
#[kani::stub(std::hash::RandomState::new, stub_random_state_new)]
fn c16_builder_rejects_unsupported() {
    let protocol = any_protocol();
    let strategy = any_multipath();
    let ports = any_port_direction();
    let (first_ttl, max_ttl): (u8, u8) = kani::any();
    let initial: u16 = kani::any();
    let unsupported = match (protocol, strategy, ports) {
        (Protocol::Icmp, _, _) => false,
        (_, _, PortDirection::None) => true,
        (Protocol::Udp, MultipathStrategy::Classic, PortDirection::FixedBoth(_, _)) => true,
        (Protocol::Tcp, _, PortDirection::FixedBoth(_, _)) => true,
        _ => false,
    } || first_ttl == 0
        || first_ttl > 254
        || max_ttl > 254
        || initial > 64511;
    kani::assume(unsupported);
    let b = Builder::new(IpAddr::V4(std::net::Ipv4Addr::new(10, 0, 0, 1)))
        .protocol(protocol)
        .multipath_strategy(strategy)
        .port_direction(ports)
        .first_ttl(first_ttl)
        .max_ttl(max_ttl)
        .initial_sequence(initial);
    let r = b.build();
    assert!(matches!(r, Err(Error::BadConfig(_))), "unsupported combination is rejected up front");
    kani::cover!(first_ttl == 0, "first_ttl 0");
    kani::cover!(matches!(ports, PortDirection::FixedBoth(_, _)) && matches!(protocol, Protocol::Tcp), "tcp fixed both");
    std::mem::forget(r);
}

fn verif_reset_statics() {}
