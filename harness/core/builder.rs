// harnesses
