// Proof harnesses inside `state::state_updater` (sees `nat_status`, `is_forward_loss`, `FlowState`).
// Properties: C19 (NAT truth table), C10 (hop-table window queries).
use super::*;
use crate::state::FlowState;
use crate::types::Checksum;
use crate::NatStatus;

/// `nat_status` for ALL 2^16 x 2^16 x Option<2^16> inputs: the first responding hop is Detected iff
/// the quoted checksum differs from the checksum as sent; a later hop is Detected iff the quoted
/// checksum differs from the previous responding hop's; the carried-forward checksum is always the
/// one this hop quoted.
#[kani::proof]
fn c19_nat_status_truth_table() {
    let expected: u16 = kani::any();
    let actual: u16 = kani::any();
    let prev: Option<u16> = if kani::any() { Some(kani::any()) } else { None };
    let (status, carry) = nat_status(Checksum(expected), Checksum(actual), prev);
    let want = match prev {
        None => expected != actual,
        Some(p) => p != actual,
    };
    assert!((status == NatStatus::Detected) == want);
    assert!((status == NatStatus::NotDetected) == !want);
    assert!(carry == actual, "the next hop is compared with what this hop quoted");
    kani::cover!(prev.is_none() && want, "first hop rewritten");
    kani::cover!(prev.is_some() && !want && expected != actual, "rewritten earlier, unchanged here");
}

/// A path without rewriting never shows NAT; a single rewriting device shows it exactly once: three
/// consecutive responding hops threaded through the real function, device between hop 1 and 2.
#[kani::proof]
fn c19_nat_status_threading() {
    let sent: u16 = kani::any();
    let rewritten: u16 = kani::any();
    let (s1, c1) = nat_status(Checksum(sent), Checksum(sent), None);
    let (s2, c2) = nat_status(Checksum(sent), Checksum(rewritten), Some(c1));
    let (s3, _c3) = nat_status(Checksum(sent), Checksum(rewritten), Some(c2));
    assert!(s1 == NatStatus::NotDetected);
    assert!((s2 == NatStatus::Detected) == (rewritten != sent), "flagged at the first hop that sees the rewritten datagram");
    assert!(s3 == NatStatus::NotDetected, "and only there");
}

/// Hop-table queries never fail and return the gap-free ascending run, for every window the
/// aggregator can produce (WIN, DESIGN C10) — including first-ttl > 1 and before any response.
/// `RandomState::new` reads the OS random source (a syscall Kani cannot model); the hasher keys are
/// irrelevant to the window queries, so they become arbitrary values.
fn stub_random_state_new() -> std::hash::RandomState {
    let keys: (u64, u64) = (kani::any(), kani::any());
    unsafe { std::mem::transmute::<(u64, u64), std::hash::RandomState>(keys) }
}

#[kani::proof]
#[kani::unwind(256)]
#[kani::stub(std::hash::RandomState::new, stub_random_state_new)]
fn c10_flow_state_window_queries() {
    let mut fs = FlowState::new(kani::any());
    let (lowest, highest, hfr): (u8, u8, u8) = kani::any();
    kani::assume(lowest <= 254 && highest <= 254 && hfr <= highest);
    kani::assume(lowest == 0 || highest == 0 || lowest <= highest);
    fs.lowest_ttl = lowest;
    fs.highest_ttl = highest;
    fs.highest_ttl_for_round = hfr;
    let base = fs.hops.as_ptr() as usize;
    let hop_size = std::mem::size_of::<crate::state::Hop>();
    assert!(fs.hops.len() == 254);
    let h = fs.hops();
    if lowest == 0 || highest == 0 {
        assert!(h.is_empty(), "nothing probed / nothing answered: empty list");
    } else {
        assert!(h.len() == usize::from(highest - lowest) + 1, "gap-free run lowest..=highest");
        assert!(h.as_ptr() as usize == base + (usize::from(lowest) - 1) * hop_size, "starts at the lowest ttl probed");
    }
    let t = fs.target_hop();
    let want_idx = if hfr > 0 { usize::from(hfr) - 1 } else { 0 };
    assert!(t as *const _ as usize == base + want_idx * hop_size, "target hop = hop at the latest round's path length");
    let probe_idx: usize = kani::any();
    kani::assume(probe_idx < 254);
    let hop = &fs.hops[probe_idx];
    let _ = (fs.is_target(hop), fs.is_in_round(hop), fs.round(), fs.round_count());
    kani::cover!(lowest > 1 && highest == 254, "first-ttl > 1, full path");
    kani::cover!(lowest > 0 && highest == 0, "probed but nothing answered yet");
    std::mem::forget(fs);
}

fn verif_reset_statics() {}
