// Proof harnesses over trippy-core's IPv4 wire layer (child module of `net::ipv4`).
// Properties: C02 (extract), C04 (receive path), C09 (error mapping), C11 (dispatch), C13 (Paris), C19 (expected checksum).
use super::*;
use crate::net::socket::Socket;

include!(concat!(env!("TRIPPY_VERIF_HARNESS"), "/common.rs"));

mod sock {
    include!(concat!(env!("TRIPPY_VERIF_HARNESS"), "/sockets.rs"));
}
use sock::{sockstate, HSock};

// ------------------------------------------------------------------ independent RFC decoders / references

fn be16(b: &[u8], off: usize) -> u16 {
    (u16::from(b[off]) << 8) | u16::from(b[off + 1])
}

fn be32(b: &[u8], off: usize) -> u32 {
    (u32::from(be16(b, off)) << 16) | u32::from(be16(b, off + 2))
}

/// RFC 1071: one's-complement sum of big-endian 16-bit words of b[from..to], odd tail padded.
fn ones_sum(b: &[u8], from: usize, to: usize, max: usize) -> u32 {
    let mut s = 0u32;
    let mut i = 0;
    while i < max {
        let p = from + i;
        if p < to {
            let hi = u32::from(b[p]);
            let lo = if p + 1 < to { u32::from(b[p + 1]) } else { 0 };
            s += (hi << 8) | lo;
        }
        i += 2;
    }
    s
}

fn fold(mut s: u32) -> u16 {
    s = (s & 0xffff) + (s >> 16);
    s = (s & 0xffff) + (s >> 16);
    s = (s & 0xffff) + (s >> 16);
    s as u16
}

/// What the harness expects the next datagram handed to `send_to` to look like.
#[derive(Clone, Copy)]
struct Expect {
    active: bool,
    size: usize,
    proto: u8,
    ttl: u8,
    tos: u8,
    ip_id: u16,
    src: u32,
    dst: u32,
    // icmp
    icmp_id: u16,
    icmp_seq: u16,
    // udp
    sport: u16,
    dport: u16,
    paris_seq: Option<u16>,
    pattern: u8,
}

static mut EXPECT: Expect = Expect {
    active: false, size: 0, proto: 0, ttl: 0, tos: 0, ip_id: 0, src: 0, dst: 0, icmp_id: 0, icmp_seq: 0, sport: 0,
    dport: 0, paris_seq: None, pattern: 0,
};
static mut SENT_UDP_CHECKSUM: u16 = 0;
static mut SENT_LEN: usize = 0;

const MAXCHK: usize = 40;

/// Called by the socket model with the exact bytes handed to `send_to`: decode them with the
/// independent RFC-offset decoder and compare with the probe and configuration.
fn on_send(b: &[u8]) {
    let e = unsafe { EXPECT };
    unsafe { SENT_LEN = b.len() };
    if !e.active {
        return;
    }
    assert!(b.len() == e.size, "datagram size equals the configured packet size");
    // ---- IPv4 header (RFC 791)
    assert!(b[0] == 0x45, "version 4, IHL 5");
    assert!(b[1] == e.tos, "configured type of service");
    assert!(usize::from(be16(b, 2)) == e.size, "total length consistent with the bytes sent");
    assert!(be16(b, 4) == e.ip_id, "IP identification");
    assert!(be16(b, 6) == 0x4000, "don't-fragment set, no fragment offset");
    assert!(b[8] == e.ttl, "probe ttl");
    assert!(b[9] == e.proto, "protocol");
    assert!(be32(b, 12) == e.src && be32(b, 16) == e.dst, "addressed from the source to the target");
    if e.proto == 1 {
        // ---- ICMP echo request (RFC 792)
        assert!(b[20] == 8 && b[21] == 0, "echo request");
        assert!(be16(b, 24) == e.icmp_id, "trace identifier");
        assert!(be16(b, 26) == e.icmp_seq, "sequence in the ICMP sequence field");
        assert!(fold(ones_sum(b, 20, e.size, MAXCHK)) == 0xffff, "ICMP checksum verifies");
        let mut i = 28;
        while i < 28 + MAXCHK {
            if i < e.size {
                assert!(b[i] == e.pattern, "payload is the configured pattern");
            }
            i += 1;
        }
    } else {
        // ---- UDP (RFC 768)
        assert!(be16(b, 20) == e.sport && be16(b, 22) == e.dport, "UDP ports");
        assert!(usize::from(be16(b, 24)) == e.size - 20, "UDP length consistent");
        let pseudo = (e.src >> 16) + (e.src & 0xffff) + (e.dst >> 16) + (e.dst & 0xffff) + 17 + (e.size as u32 - 20);
        assert!(fold(pseudo + ones_sum(b, 20, e.size, MAXCHK)) == 0xffff, "UDP checksum verifies");
        unsafe { SENT_UDP_CHECKSUM = be16(b, 26) };
        match e.paris_seq {
            Some(seq) => assert!(be16(b, 26) == seq, "Paris: the UDP checksum field carries the sequence"),
            None => {
                let mut i = 28;
                while i < 28 + MAXCHK {
                    if i < e.size {
                        assert!(b[i] == e.pattern, "payload is the configured pattern");
                    }
                    i += 1;
                }
            }
        }
    }
}

fn any_ipv4_cfg(protocol: Protocol, size: u16, ext: bool) -> Ipv4 {
    Ipv4 {
        src_addr: any_ipv4(),
        dest_addr: any_ipv4(),
        byte_order: platform::Ipv4ByteOrder::Network,
        packet_size: PacketSize(size),
        // symbolic pattern in the thorough tier, for the dispatch-content harnesses only (sizes up to 64)
        payload_pattern: PayloadPattern(if option_env!("VERIF_THOROUGH").is_some() && size >= 28 && size <= 64 { kani::any() } else { 0xA5 }),
        privilege_mode: PrivilegeMode::Privileged,
        tos: TypeOfService(kani::any()),
        protocol,
        icmp_extension_mode: if ext { IcmpExtensionParseMode::Enabled } else { IcmpExtensionParseMode::Disabled },
    }
}

fn any_probe(flags: Flags) -> Probe {
    Probe::new(
        Sequence(kani::any()),
        TraceId(kani::any()),
        Port(kani::any()),
        Port(kani::any()),
        TimeToLive(kani::any()),
        RoundId(0),
        UNIX_EPOCH,
        flags,
    )
}

// =========================================================================== C11: dispatch

/// ICMP echo request over the real `dispatch_icmp_probe`: every sequence, identifier, ttl, tos and
/// address pair (symbolic), packet size `size`; the bytes handed to the socket decode as configured.
fn dispatch_icmp(size: u16) {
    let ipv4 = any_ipv4_cfg(Protocol::Icmp, size, false);
    let probe = any_probe(Flags::empty());
    unsafe {
        EXPECT = Expect {
            active: true, size: usize::from(size), proto: 1, ttl: probe.ttl.0, tos: ipv4.tos.0, ip_id: 0,
            src: u32::from(ipv4.src_addr), dst: u32::from(ipv4.dest_addr), icmp_id: probe.identifier.0,
            icmp_seq: probe.sequence.0, sport: 0, dport: 0, paris_seq: None, pattern: ipv4.payload_pattern.0,
        };
    }
    let mut s = HSock;
    let dst = ipv4.dest_addr;
    let r = ipv4.dispatch_icmp_probe(&mut s, probe);
    assert!(r.is_ok());
    unsafe {
        assert!(sockstate::SEND_CALLS == 1, "exactly one datagram per probe");
        assert!(sockstate::SEND_ADDR == Some(SocketAddr::new(IpAddr::V4(dst), 0)), "sent to the target");
    }
}

#[kani::proof]
#[kani::unwind(45)]
fn c11_v4_dispatch_icmp_min() {
    dispatch_icmp(28);
}
#[kani::proof]
#[kani::unwind(45)]
fn c11_v4_dispatch_icmp_odd() {
    dispatch_icmp(29);
}
#[kani::proof]
#[kani::unwind(45)]
fn c11_v4_dispatch_icmp_37() {
    dispatch_icmp(37);
}

/// UDP over the real `dispatch_udp_probe` (privileged / raw): classic (flags empty), Paris
/// (checksum swap) and Dublin (IP identification = probe identifier).
fn dispatch_udp(size: u16, paris: bool, dublin_flag: bool) {
    let ipv4 = any_ipv4_cfg(Protocol::Udp, size, false);
    let probe = any_probe(if paris { Flags::PARIS_CHECKSUM } else if dublin_flag { Flags::DUBLIN_IPV6_PAYLOAD_LENGTH } else { Flags::empty() });
    unsafe {
        EXPECT = Expect {
            active: true,
            // Paris probes carry a fixed 2-byte payload whatever the configured size
            size: if paris { 30 } else { usize::from(size) },
            proto: 17, ttl: probe.ttl.0, tos: ipv4.tos.0, ip_id: probe.identifier.0,
            src: u32::from(ipv4.src_addr), dst: u32::from(ipv4.dest_addr), icmp_id: 0, icmp_seq: 0,
            sport: probe.src_port.0, dport: probe.dest_port.0,
            paris_seq: if paris { Some(probe.sequence.0) } else { None }, pattern: ipv4.payload_pattern.0,
        };
    }
    let mut s = HSock;
    let (dst, dport) = (ipv4.dest_addr, probe.dest_port.0);
    let r = ipv4.dispatch_udp_probe(&mut s, probe);
    assert!(r.is_ok());
    unsafe {
        assert!(sockstate::SEND_CALLS == 1, "exactly one datagram per probe");
        assert!(sockstate::SEND_ADDR == Some(SocketAddr::new(IpAddr::V4(dst), dport)), "sent to the target");
    }
}

/// C19 (H19c): the checksum the tracer later computes as "expected" for a quotation of its own
/// probe (`calc_udp_checksum` from the quoted ports and payload length) equals the checksum
/// `make_udp_packet` put on the wire for that probe — so an unrewritten path never shows NAT.
/// Ports, addresses and the payload pattern symbolic; payload sizes {0, 1, 9}.
fn expected_checksum_is_sent_checksum(payload: usize) {
    let ipv4 = any_ipv4_cfg(Protocol::Udp, 28 + payload as u16, false);
    let (sp, dp): (u16, u16) = kani::any();
    let mut buf = [0u8; 64];
    let data = [ipv4.payload_pattern.0; 16];
    let sent = ipv4.make_udp_packet(&mut buf, sp, dp, &data[..payload]).unwrap().get_checksum();
    let expected = ipv4.calc_udp_checksum(Port(sp), Port(dp), payload as u16).unwrap();
    assert!(expected == sent, "expected checksum = checksum as sent");
}

#[kani::proof]
#[kani::unwind(45)]
fn c19_v4_expected_checksum_payload_0() {
    expected_checksum_is_sent_checksum(0);
}
#[kani::proof]
#[kani::unwind(45)]
fn c19_v4_expected_checksum_payload_1() {
    expected_checksum_is_sent_checksum(1);
}
#[kani::proof]
#[kani::unwind(45)]
fn c19_v4_expected_checksum_payload_9() {
    expected_checksum_is_sent_checksum(9);
}

#[kani::proof]
#[kani::unwind(45)]
fn c11_v4_dispatch_udp_min() {
    dispatch_udp(28, false, false);
}
#[kani::proof]
#[kani::unwind(45)]
fn c11_v4_dispatch_udp_odd() {
    dispatch_udp(29, false, true);
}
#[kani::proof]
#[kani::unwind(45)]
fn c11_v4_dispatch_udp_37() {
    dispatch_udp(37, false, false);
}
#[kani::proof]
#[kani::unwind(45)]
fn c13_v4_dispatch_udp_paris() {
    dispatch_udp(37, true, false);
}

/// Packet size guards: every size outside [28, 1024] is rejected with InvalidPacketSize before
/// anything is sent (all 2^16 sizes outside the range, symbolic).
#[kani::proof]
#[kani::unwind(34)]
fn c11_v4_size_guards() {
    let size: u16 = kani::any();
    kani::assume(size < 28 || size > 1024);
    let udp: bool = kani::any();
    let mut ipv4 = any_ipv4_cfg(if udp { Protocol::Udp } else { Protocol::Icmp }, size, false);
    // the guard does not depend on the pattern; concrete in both tiers (symbolic size x symbolic pattern runs out of memory)
    ipv4.payload_pattern = PayloadPattern(0xA5);
    let probe = any_probe(Flags::empty());
    let mut s = HSock;
    let r = if udp { ipv4.dispatch_udp_probe(&mut s, probe) } else { ipv4.dispatch_icmp_probe(&mut s, probe) };
    match r {
        Err(Error::InvalidPacketSize(n)) => assert!(n == usize::from(size)),
        _ => assert!(false, "size guard"),
    }
    assert!(unsafe { sockstate::SEND_CALLS } == 0);
    kani::cover!(size == 27, "just below");
    kani::cover!(size == 1025, "just above");
}

/// Unprivileged UDP and TCP: the socket is bound to the source address and probe source port, the
/// ttl and tos options carry the probe's ttl and the configured tos, the datagram / connection goes
/// to the target address and the probe's destination port.  Bind / connect failures map to
/// AddressInUse (EADDRINUSE), ProbeFailed (EADDRNOTAVAIL on bind, ENETUNREACH on connect), nothing
/// (EINPROGRESS), or a fatal IoError.
#[kani::proof]
#[kani::unwind(34)]
fn c11_v4_dispatch_tcp() {
    let ipv4 = any_ipv4_cfg(Protocol::Tcp, 28, false);
    let probe = any_probe(Flags::empty());
    let (b, c): (u8, u8) = kani::any();
    kani::assume(b <= 7 && c <= 7);
    unsafe {
        sockstate::BIND_OUTCOME = b;
        sockstate::CONNECT_OUTCOME = c;
    }
    let r = ipv4.dispatch_tcp_probe::<HSock>(&probe);
    let local = SocketAddr::new(IpAddr::V4(ipv4.src_addr), probe.src_port.0);
    let remote = SocketAddr::new(IpAddr::V4(ipv4.dest_addr), probe.dest_port.0);
    unsafe {
        assert!(sockstate::BIND_ADDR == Some(local), "bound to source address and source port");
    }
    let bind_ok = b == 0 || b == 5;
    if !bind_ok {
        match (b, &r) {
            (1, Err(Error::AddressInUse(a))) => assert!(*a == local),
            (2, Err(Error::ProbeFailed(_))) => {}
            (3 | 4 | 6 | 7, Err(Error::IoError(_))) => {}
            _ => assert!(false, "bind error mapping"),
        }
        assert!(unsafe { sockstate::CONNECT_ADDR.is_none() });
    } else {
        unsafe {
            assert!(sockstate::TTL_SET == Some(u32::from(probe.ttl.0)), "probe ttl");
            assert!(sockstate::TOS_SET == Some(u32::from(ipv4.tos.0)), "configured tos");
            assert!(sockstate::CONNECT_ADDR == Some(remote), "connects to the target and destination port");
        }
        match (c, &r) {
            (0 | 5, Ok(_)) => {}
            (1, Err(Error::AddressInUse(a))) => assert!(*a == remote),
            (4, Err(Error::ProbeFailed(_))) => {}
            (2 | 3 | 6 | 7, Err(Error::IoError(_))) => {}
            _ => assert!(false, "connect error mapping"),
        }
    }
    kani::cover!(r.is_ok(), "connected");
    kani::cover!(matches!(r, Err(Error::AddressInUse(_))), "address in use");
    std::mem::forget(r);
}

/// C09 error mapping on the raw send path: EHOSTUNREACH / ENETUNREACH (and EINVAL for ICMP) are
/// transient (ProbeFailed); everything else is fatal (IoError).
#[kani::proof]
#[kani::unwind(45)]
fn c09_v4_send_error_mapping() {
    let icmp: bool = kani::any();
    let ipv4 = any_ipv4_cfg(if icmp { Protocol::Icmp } else { Protocol::Udp }, 28, false);
    let probe = any_probe(Flags::empty());
    let o: u8 = kani::any();
    kani::assume(o >= 1 && o <= 7);
    unsafe { sockstate::SEND_OUTCOME = o };
    let mut s = HSock;
    let r = if icmp { ipv4.dispatch_icmp_probe(&mut s, probe) } else { ipv4.dispatch_udp_probe(&mut s, probe) };
    match (o, &r) {
        (3 | 4, Err(Error::ProbeFailed(_))) => {}
        (6, Err(Error::ProbeFailed(_))) => assert!(icmp),
        (6, Err(Error::IoError(_))) => assert!(!icmp),
        (1 | 2 | 5 | 7, Err(Error::IoError(_))) => {}
        _ => assert!(false, "send error mapping"),
    }
    kani::cover!(matches!(r, Err(Error::ProbeFailed(_))), "transient");
    kani::cover!(matches!(r, Err(Error::IoError(_))), "fatal");
    std::mem::forget(r);
}

/// C09: the error classification itself (`ErrorMapper`), for a representative of every class the
/// send paths distinguish: only EADDRINUSE becomes AddressInUse (carrying the address), only an error of
/// exactly the named kind becomes the transient ProbeFailed, only EINPROGRESS is swallowed; everything
/// else — and every non-I/O error — passes through unchanged.
#[kani::proof]
#[kani::unwind(34)]
fn c09_error_mapper_table() {
    use crate::net::common::ErrorMapper;
    let code: u8 = kani::any();
    kani::assume(code >= 1 && code <= 7);
    let op: u8 = kani::any();
    kani::assume(op <= 2);
    let addr = SocketAddr::new(IpAddr::V4(any_ipv4()), kani::any());
    // 1 AddrInUse, 2 AddrNotAvailable, 3 EHOSTUNREACH, 4 ENETUNREACH, 5 EINPROGRESS, 6 InvalidInput, 7 PermissionDenied
    let e1 = ErrorMapper::addr_in_use(Error::IoError(sock::mk_err(code, addr, op)), addr);
    match (&e1, code) {
        (Error::AddressInUse(a), 1) => assert!(*a == addr),
        (Error::IoError(_), c) => assert!(c != 1),
        _ => assert!(false, "addr_in_use: only EADDRINUSE maps to AddressInUse"),
    }
    let which: u8 = kani::any();
    kani::assume(which <= 3);
    let (kind, kind_code) = match which {
        0 => (ErrorKind::HostUnreachable, 3),
        1 => (ErrorKind::NetUnreachable, 4),
        2 => (ADDR_NOT_AVAILABLE_KIND, 2),
        _ => (INVALID_INPUT_KIND, 6),
    };
    let e2 = ErrorMapper::probe_failed(Error::IoError(sock::mk_err(code, addr, op)), kind);
    match (&e2, code == kind_code) {
        (Error::ProbeFailed(_), true) | (Error::IoError(_), false) => {}
        _ => assert!(false, "probe_failed: exactly the named kind is transient"),
    }
    let e3 = ErrorMapper::in_progress(Error::IoError(sock::mk_err(code, addr, op)));
    match (&e3, code) {
        (Ok(()), 5) => {}
        (Err(Error::IoError(_)), c) => assert!(c != 5),
        _ => assert!(false, "in_progress: only EINPROGRESS is swallowed"),
    }
    // non-I/O errors pass through all three untouched
    assert!(matches!(ErrorMapper::addr_in_use(Error::MissingAddr, addr), Error::MissingAddr));
    assert!(matches!(ErrorMapper::probe_failed(Error::InsufficientCapacity, ErrorKind::HostUnreachable), Error::InsufficientCapacity));
    assert!(matches!(ErrorMapper::in_progress(Error::MissingAddr), Err(Error::MissingAddr)));
    kani::cover!(matches!(e2, Error::ProbeFailed(_)), "transient");
    kani::cover!(e3.is_ok(), "in progress");
    std::mem::forget((e1, e2, e3));
}

// =========================================================================== C04 / C01: the receive path

fn stub_udp_ck(_data: &[u8], _src: Ipv4Addr, _dst: Ipv4Addr) -> u16 {
    kani::any()
}

/// Cut for the UDP receive-path harness: `calc_udp_checksum` rebuilds a datagram of attacker-chosen
/// (symbolic) payload size, which exhausts 45 GB inside the whole receive path; it is decided on its
/// own for every size 0..=65535 by `c04_v4_calc_udp_checksum_any_size`, and its value by `c19_v4_*`.
fn stub_calc_udp_checksum(_this: &Ipv4, _src: Port, _dst: Port, _size: u16) -> Result<u16> {
    Ok(kani::any())
}

fn arm_read() -> usize {
    let bytes: [u8; sockstate::RBUF] = kani::any();
    let len: usize = kani::any();
    kani::assume(len <= sockstate::RBUF);
    unsafe {
        sockstate::READ_BYTES = bytes;
        sockstate::READ_LEN = len;
        sockstate::READ_ERR = 0;
    }
    len
}

/// Whatever <= N bytes arrive on the receive socket (N = 48 quick / 64 thorough, every length
/// 0..=N): `recv_icmp_probe` returns (a response, nothing, or an error value) without panicking,
/// overflowing or reading outside the datagram; a response carries the outer source address, the
/// ICMP code byte and the clock reading taken in the call (C01 ground truth at the wire).
fn recv_no_panic(protocol: Protocol, ext: bool) {
    let ipv4 = any_ipv4_cfg(protocol, 84, ext);
    let len = arm_read();
    let now_s: u32 = kani::any();
    clock::set(0, u64::from(now_s), 0);
    clock::set(1, u64::from(now_s), 0);
    clock::set(2, u64::from(now_s), 0);
    let mut s = HSock;
    let r = ipv4.recv_icmp_probe(&mut s);
    let b = unsafe { sockstate::READ_BYTES };
    if let Ok(Some(resp)) = &r {
        let ihl = usize::from(b[0] & 0xf);
        let off = if ihl < 5 { 20 } else { ihl * 4 };
        let d = resp.data();
        assert!(d.addr == IpAddr::V4(Ipv4Addr::new(b[12], b[13], b[14], b[15])), "responder = outer source address");
        assert!(d.recv == clock::mk(u64::from(now_s), 0), "receive time = clock reading taken in the call");
        match resp {
            Response::TimeExceeded(_, code, _) => assert!(b[off] == 11 && code.0 == b[off + 1] && code.0 == 0),
            Response::DestinationUnreachable(_, code, _) => assert!(b[off] == 3 && code.0 == b[off + 1]),
            Response::EchoReply(_, code) => assert!(b[off] == 0 && code.0 == b[off + 1] && matches!(protocol, Protocol::Icmp)),
            _ => assert!(false, "no TCP responses on the ICMP path"),
        }
    }
    kani::cover!(matches!(r, Ok(Some(Response::TimeExceeded(..)))), "time exceeded recognised");
    kani::cover!(matches!(r, Ok(Some(Response::DestinationUnreachable(..)))), "destination unreachable recognised");
    kani::cover!(matches!(r, Err(_)), "malformed datagram rejected with an error value");
    kani::cover!(matches!(r, Ok(None)) && len >= 28, "unrelated datagram ignored");
    std::mem::forget(r);
}

#[kani::proof]
#[kani::unwind(100)]
#[kani::stub(std::time::SystemTime::now, clock::now_stub)]
fn c04_v4_recv_icmp() {
    recv_no_panic(Protocol::Icmp, false);
}
#[kani::proof]
#[kani::unwind(100)]
#[kani::stub(std::time::SystemTime::now, clock::now_stub)]
fn c04_v4_recv_tcp() {
    recv_no_panic(Protocol::Tcp, false);
}
#[kani::proof]
#[kani::unwind(100)]
#[kani::stub(std::time::SystemTime::now, clock::now_stub)]
#[kani::stub(crate::net::ipv4::Ipv4::calc_udp_checksum, stub_calc_udp_checksum)]
fn c04_v4_recv_udp() {
    recv_no_panic(Protocol::Udp, false);
}

/// A read that would block is "nothing", any other read error is returned as an error value.
#[kani::proof]
#[kani::unwind(3)]
fn c09_v4_recv_socket_errors() {
    let ipv4 = any_ipv4_cfg(Protocol::Icmp, 84, false);
    let e: u8 = kani::any();
    kani::assume(e == 1 || e == 2);
    unsafe { sockstate::READ_ERR = e };
    let mut s = HSock;
    let r = ipv4.recv_icmp_probe(&mut s);
    match (e, &r) {
        (1, Ok(None)) => {}
        (2, Err(Error::IoError(_))) => {}
        _ => assert!(false, "read error mapping"),
    }
    kani::cover!(e == 2, "fatal");
    std::mem::forget(r);
}

/// `calc_udp_checksum` for EVERY payload size 0..=65535 (attacker-controlled): never panics (sizes
/// beyond the buffer are clamped).
#[kani::proof]
#[kani::unwind(3)]
#[kani::stub(trippy_packet::checksum::udp_ipv4_checksum, stub_udp_ck)]
fn c04_v4_calc_udp_checksum_any_size() {
    let ipv4 = any_ipv4_cfg(Protocol::Udp, 84, false);
    let size: u16 = kani::any();
    let r = ipv4.calc_udp_checksum(Port(kani::any()), Port(kani::any()), size);
    assert!(r.is_ok());
    kani::cover!(size == 65535, "maximum");
}

// =========================================================================== C02: parse honours the wire contract

const QN: usize = if option_env!("VERIF_THOROUGH").is_some() { 64 } else { 48 };

/// `extract_probe_proto_resp` on an ARBITRARY quoted datagram (symbolic content, symbolic length
/// from IP header + 8 up to N, any IHL that fits, any ttl / header checksum / tos as rewritten in
/// transit): the identity fields it returns are the bytes at the RFC offsets — the contract the
/// identity tables (c02_identity_*) and the dispatch harnesses (c11_*) are stated against.
fn extract_contract(protocol: Protocol) {
    let ipv4 = any_ipv4_cfg(protocol, 84, false);
    let q: [u8; QN] = kani::any();
    let len: usize = kani::any();
    let ihl = usize::from(q[0] & 0xf);
    let off = if ihl < 5 { 20 } else { ihl * 4 };
    kani::assume(len >= off + 8 && len <= QN); // standards-conforming quotation: IP header + >= 8 octets
    let pkt = Ipv4Packet::new_view(&q[..len]).unwrap();
    let r = ipv4.extract_probe_proto_resp(&pkt);
    let dest = IpAddr::V4(Ipv4Addr::new(q[16], q[17], q[18], q[19]));
    let want_proto = match protocol {
        Protocol::Icmp => 1,
        Protocol::Udp => 17,
        Protocol::Tcp => 6,
    };
    match r {
        Ok(Some(ProtocolResponse::Icmp(i))) => {
            assert!(q[9] == 1 && want_proto == 1);
            assert!(i.identifier == be16(&q, off + 4) && i.sequence == be16(&q, off + 6));
            assert!(i.tos == Some(TypeOfService(q[1])));
        }
        Ok(Some(ProtocolResponse::Udp(u))) => {
            assert!(q[9] == 17 && want_proto == 17);
            assert!(u.src_port == be16(&q, off) && u.dest_port == be16(&q, off + 2));
            assert!(u.actual_udp_checksum == be16(&q, off + 6));
            assert!(u.identifier == be16(&q, 4), "IP identification");
            assert!(u.payload_len == be16(&q, off + 4).saturating_sub(8));
            assert!(u.dest_addr == dest && u.tos == Some(TypeOfService(q[1])) && !u.has_magic);
        }
        Ok(Some(ProtocolResponse::Tcp(t))) => {
            assert!(q[9] == 6 && want_proto == 6);
            assert!(t.src_port == be16(&q, off) && t.dest_port == be16(&q, off + 2), "ports even from an 8-octet quotation");
            assert!(t.dest_addr == dest && t.tos == Some(TypeOfService(q[1])));
        }
        Ok(None) => assert!(q[9] != want_proto, "a quotation of another protocol is never accepted"),
        Err(_) => assert!(false, "a conforming quotation always parses"),
    }
    kani::cover!(q[9] == want_proto && ihl == 6 && len == off + 8, "options present, minimal quotation");
    kani::cover!(q[9] == want_proto && len == QN, "long quotation");
    kani::cover!(q[9] != want_proto, "other protocol");
}

#[kani::proof]
#[kani::unwind(24)]
fn c02_v4_extract_icmp() {
    extract_contract(Protocol::Icmp);
}
#[kani::proof]
#[kani::unwind(24)]
#[kani::stub(trippy_packet::checksum::udp_ipv4_checksum, stub_udp_ck)]
fn c02_v4_extract_udp() {
    extract_contract(Protocol::Udp);
}
#[kani::proof]
#[kani::unwind(24)]
fn c02_v4_extract_tcp() {
    extract_contract(Protocol::Tcp);
}

/// TCP handshake answers (H02d): whatever the connection attempt ends in, the synthetic response
/// carries the probe's OWN ports and the target as quoted destination; connected => TcpReply from the
/// peer, refused => TcpRefused from the target, host unreachable => TimeExceeded from the host the
/// ICMP error came from; any other socket error => nothing.
#[kani::proof]
#[kani::unwind(20)]
#[kani::stub(std::time::SystemTime::now, clock::now_stub)]
fn c02_v4_recv_tcp_socket() {
    let ipv4 = any_ipv4_cfg(Protocol::Tcp, 28, false);
    let (sp, dp): (u16, u16) = kani::any();
    let outcome: u8 = kani::any();
    kani::assume(outcome <= 3);
    let peer = SocketAddr::new(IpAddr::V4(any_ipv4()), kani::any());
    let has_peer: bool = kani::any();
    let err_addr = IpAddr::V4(any_ipv4());
    unsafe {
        sockstate::TAKE_ERROR = outcome;
        sockstate::PEER_ADDR = if has_peer { Some(peer) } else { None };
        sockstate::ICMP_ERROR_ADDR = Some(err_addr);
    }
    let now_s: u32 = kani::any();
    clock::set(0, u64::from(now_s), 0);
    clock::set(1, u64::from(now_s), 0);
    clock::set(2, u64::from(now_s), 0);
    let mut s = HSock;
    let r = ipv4.recv_tcp_socket(&mut s, Port(sp), Port(dp));
    let target = IpAddr::V4(ipv4.dest_addr);
    let check_proto = |d: &ResponseData| match &d.proto_resp {
        ProtocolResponse::Tcp(t) => {
            assert!(t.src_port == sp && t.dest_port == dp, "the probe's own ports");
            assert!(t.dest_addr == target, "quoted destination = target");
        }
        _ => assert!(false, "TCP payload"),
    };
    match (outcome, has_peer, &r) {
        (0, true, Ok(Some(Response::TcpReply(d)))) => {
            check_proto(d);
            assert!(d.addr == peer.ip() && d.recv == clock::mk(u64::from(now_s), 0));
            assert!(unsafe { sockstate::SHUTDOWN_CALLS } == 1);
        }
        (0, false, Err(Error::MissingAddr)) => {}
        (1, _, Ok(Some(Response::TcpRefused(d)))) => {
            check_proto(d);
            assert!(d.addr == target);
        }
        (2, _, Ok(Some(Response::TimeExceeded(d, code, None)))) => {
            check_proto(d);
            assert!(d.addr == err_addr && code.0 == 1);
        }
        (3, _, Ok(None)) => {}
        _ => assert!(false, "handshake outcome mapping"),
    }
    kani::cover!(matches!(r, Ok(Some(Response::TcpReply(_)))), "connected");
    kani::cover!(matches!(r, Ok(Some(Response::TimeExceeded(..)))), "host unreachable");
    std::mem::forget(r);
}

// =========================================================================== C14: trippy-core's conversions

/// Leaf conversion: a label-stack member is copied field by field (independent RFC 4950 decode).
#[kani::proof]
#[kani::unwind(6)]
fn c14_core_mpls_member_from() {
    use crate::probe::MplsLabelStackMember;
    use trippy_packet::icmp_extension::mpls_label_stack_member::MplsLabelStackMemberPacket;
    let b: [u8; 4] = kani::any();
    let m = MplsLabelStackMember::from(MplsLabelStackMemberPacket::new_view(&b).unwrap());
    assert!(m.label == (u32::from(b[0]) << 12) | (u32::from(b[1]) << 4) | (u32::from(b[2]) >> 4));
    assert!(m.exp == (b[2] >> 1) & 7 && m.bos == b[2] & 1 && m.ttl == b[3]);
}

/// Leaf conversion: an object of an unknown class keeps its class, sub-type and exactly its payload bytes.
#[kani::proof]
#[kani::unwind(10)]
fn c14_core_unknown_extension_from() {
    use crate::probe::UnknownExtension;
    use trippy_packet::icmp_extension::extension_object::ExtensionObjectPacket;
    let b: [u8; 8] = kani::any();
    let l = usize::from(be16(&b, 0));
    kani::assume(l >= 4 && l <= 8);
    let u = UnknownExtension::from(ExtensionObjectPacket::new_view(&b).unwrap());
    assert!(u.class_num == b[2] && u.class_subtype == b[3]);
    assert!(u.bytes.len() == l - 4);
    let mut i = 0;
    while i < 4 {
        if i < l - 4 {
            assert!(u.bytes[i] == b[4 + i]);
        }
        i += 1;
    }
    kani::cover!(l == 8, "full payload");
    kani::cover!(l == 4, "empty payload");
    std::mem::forget(u);
}

/// The whole conversion `Extensions::try_from` on a well-formed structure of fixed shape (header
/// version 2, one MPLS object holding two label-stack members, one opaque object with two payload
/// bytes), every field value symbolic: exactly those objects, labels and EXP/S/TTL values, in order.
/// (For arbitrary byte strings the conversion is outside reach, DESIGN C14.)
#[kani::proof]
#[kani::unwind(10)]
fn c14_core_extensions_try_from_wellformed() {
    use crate::probe::{Extension, Extensions};
    let mut b = [0u8; 4 + 12 + 6];
    b[0] = 0x20; // version 2
    b[2] = kani::any();
    b[3] = kani::any(); // checksum: not verified by the parser
    // object 1: MPLS label stack, length 12, class 1, subtype 1, two members
    b[4] = 0;
    b[5] = 12;
    b[6] = 1;
    b[7] = 1;
    let m: [u8; 8] = kani::any();
    kani::assume(m[2] & 1 == 0 && m[6] & 1 == 1); // bottom-of-stack on the last member only
    let mut i = 0;
    while i < 8 {
        b[8 + i] = m[i];
        i += 1;
    }
    // object 2: unknown class, length 6
    let class: u8 = kani::any();
    kani::assume(class != 1);
    b[16] = 0;
    b[17] = 6;
    b[18] = class;
    b[19] = kani::any();
    b[20] = kani::any();
    b[21] = kani::any();
    let e = Extensions::try_from(&b[..]).unwrap();
    assert!(e.extensions.len() == 2, "exactly the objects that were encoded");
    match &e.extensions[0] {
        Extension::Mpls(s) => {
            assert!(s.members.len() == 2);
            assert!(s.members[0].label == (u32::from(m[0]) << 12) | (u32::from(m[1]) << 4) | (u32::from(m[2]) >> 4));
            assert!(s.members[0].exp == (m[2] >> 1) & 7 && s.members[0].bos == 0 && s.members[0].ttl == m[3]);
            assert!(s.members[1].label == (u32::from(m[4]) << 12) | (u32::from(m[5]) << 4) | (u32::from(m[6]) >> 4));
            assert!(s.members[1].exp == (m[6] >> 1) & 7 && s.members[1].bos == 1 && s.members[1].ttl == m[7]);
        }
        Extension::Unknown(_) => assert!(false, "first object is the MPLS stack"),
    }
    match &e.extensions[1] {
        Extension::Unknown(u) => {
            assert!(u.class_num == class && u.class_subtype == b[19]);
            assert!(u.bytes.len() == 2 && u.bytes[0] == b[20] && u.bytes[1] == b[21]);
        }
        Extension::Mpls(_) => assert!(false, "second object is opaque"),
    }
    std::mem::forget(e);
}

/// Unprivileged UDP (kernel-built headers): a fresh datagram socket is bound to the source address and
/// the probe's source port, carries the probe's ttl and the configured tos as socket options, and the
/// payload (configured size minus the 28 header bytes the kernel adds) goes to the target and the probe's
/// destination port.  Bind failures map as for TCP.
#[kani::proof]
#[kani::unwind(45)]
fn c11_v4_dispatch_udp_unprivileged() {
    let mut ipv4 = any_ipv4_cfg(Protocol::Udp, 37, false);
    ipv4.privilege_mode = PrivilegeMode::Unprivileged;
    let probe = any_probe(Flags::empty());
    let b: u8 = kani::any();
    kani::assume(b <= 7);
    unsafe { sockstate::BIND_OUTCOME = b };
    let mut s = HSock;
    let (ttl, sp, dp) = (probe.ttl.0, probe.src_port.0, probe.dest_port.0);
    let r = ipv4.dispatch_udp_probe(&mut s, probe);
    let local = SocketAddr::new(IpAddr::V4(ipv4.src_addr), sp);
    let remote = SocketAddr::new(IpAddr::V4(ipv4.dest_addr), dp);
    unsafe {
        assert!(sockstate::NEW_CALLS == 1, "one fresh socket per probe");
        assert!(sockstate::BIND_ADDR == Some(local), "bound to source address and source port");
    }
    if b == 0 || b == 5 {
        assert!(r.is_ok());
        unsafe {
            assert!(sockstate::TTL_SET == Some(u32::from(ttl)), "probe ttl");
            assert!(sockstate::TOS_SET == Some(u32::from(ipv4.tos.0)), "configured tos");
            assert!(sockstate::SEND_CALLS == 1 && sockstate::SEND_ADDR == Some(remote), "sent to the target and destination port");
            assert!(SENT_LEN == 37 - 28, "payload size = packet size minus IP and UDP headers");
        }
    } else {
        match (b, &r) {
            (1, Err(Error::AddressInUse(a))) => assert!(*a == local),
            (2, Err(Error::ProbeFailed(_))) => {}
            (3 | 4 | 6 | 7, Err(Error::IoError(_))) => {}
            _ => assert!(false, "bind error mapping"),
        }
        assert!(unsafe { sockstate::SEND_CALLS } == 0);
    }
    kani::cover!(r.is_ok(), "sent");
    std::mem::forget(r);
}
