// Proof harnesses inside `net::channel` (sees `Channel`'s fields).  Property: C16 (TCP probe table), C09.
use super::*;
use crate::net::socket::Socket;
use crate::types::{PacketSize, PayloadPattern, RoundId, Sequence, TimeToLive, TraceId, TypeOfService, Flags};
use crate::{IcmpExtensionParseMode};
use std::net::{Ipv4Addr, Ipv6Addr};
use std::time::UNIX_EPOCH;

mod sock {
    include!(concat!(env!("TRIPPY_VERIF_HARNESS"), "/sockets.rs"));
}
use sock::{sockstate, HSock};

fn on_send(_b: &[u8]) {}

mod clock {
    use std::time::{Duration, SystemTime, UNIX_EPOCH};
    pub static mut NOW_S: u64 = 0;
    pub fn now_stub() -> SystemTime {
        UNIX_EPOCH + Duration::new(unsafe { NOW_S }, 0)
    }
}

fn any_channel(v6: bool) -> Channel<HSock> {
    let family_config = if v6 {
        FamilyConfig::V6(Ipv6 {
            src_addr: Ipv6Addr::from(kani::any::<u128>()),
            dest_addr: Ipv6Addr::from(kani::any::<u128>()),
            packet_size: PacketSize(kani::any()),
            payload_pattern: PayloadPattern(kani::any()),
            privilege_mode: PrivilegeMode::Privileged,
            protocol: Protocol::Tcp,
            icmp_extension_mode: IcmpExtensionParseMode::Disabled,
            initial_sequence: Sequence(kani::any()),
        })
    } else {
        FamilyConfig::V4(Ipv4 {
            src_addr: Ipv4Addr::from(kani::any::<u32>()),
            dest_addr: Ipv4Addr::from(kani::any::<u32>()),
            byte_order: platform::Ipv4ByteOrder::Network,
            packet_size: PacketSize(kani::any()),
            payload_pattern: PayloadPattern(kani::any()),
            privilege_mode: PrivilegeMode::Privileged,
            tos: TypeOfService(kani::any()),
            protocol: Protocol::Tcp,
            icmp_extension_mode: IcmpExtensionParseMode::Disabled,
        })
    };
    Channel {
        protocol: Protocol::Tcp,
        read_timeout: Duration::ZERO,
        tcp_connect_timeout: Duration::from_secs(1),
        send_socket: None,
        recv_socket: HSock,
        tcp_probes: ArrayVec::new(),
        family_config,
    }
}

/// `send_probe` for TCP with ANY number 0..=256 of connection attempts still outstanding: returns
/// (Ok or an error value), never panics; when the table is full the error is a capacity error.
fn tcp_table_capacity(v6: bool) {
    let mut ch = any_channel(v6);
    let n: usize = kani::any();
    kani::assume(n <= MAX_TCP_PROBES);
    // n outstanding entries (their contents are never read by send_probe)
    unsafe { ch.tcp_probes.set_len(n) };
    let probe = Probe::new(
        Sequence(kani::any()),
        TraceId(0),
        Port(kani::any()),
        Port(kani::any()),
        TimeToLive(kani::any()),
        RoundId(0),
        UNIX_EPOCH,
        Flags::empty(),
    );
    let r = ch.send_probe(probe);
    if n == MAX_TCP_PROBES {
        assert!(matches!(r, Err(Error::InsufficientCapacity)), "full table: capacity error, not a crash");
        assert!(ch.tcp_probes.len() == n);
    } else {
        assert!(r.is_ok() && ch.tcp_probes.len() == n + 1);
    }
    kani::cover!(n == MAX_TCP_PROBES, "table full");
    kani::cover!(n == 0, "table empty");
    std::mem::forget(ch);
    std::mem::forget(r);
}

#[kani::proof]
#[kani::unwind(3)]
#[kani::stub(std::time::SystemTime::now, clock::now_stub)]
fn c16_tcp_probe_table_v4() {
    tcp_table_capacity(false);
}
#[kani::proof]
#[kani::unwind(3)]
#[kani::stub(std::time::SystemTime::now, clock::now_stub)]
fn c16_tcp_probe_table_v6() {
    tcp_table_capacity(true);
}

fn verif_reset_statics() {
    sock::reset();
    unsafe { clock::NOW_S = 0 };
}

// (Not instantiated: "the attempt whose socket became writable is answered with ITS OWN ports and it
// alone leaves the table" over two outstanding attempts - ArrayVec::retain + iter_mut().find_map +
// remove do not get through CBMC in 15 min / 16 GB even with concrete writability; that
// `recv_tcp_sockets` hands `probe.src_port, probe.dest_port` of the removed entry to
// `recv_tcp_socket` is by reading.  What `recv_tcp_socket` does with them is c02_v4_recv_tcp_socket.)

/// Attempts older than the connect timeout are dropped before polling.
#[kani::proof]
#[kani::unwind(6)]
#[kani::stub(std::time::SystemTime::now, clock::now_stub)]
fn c02_channel_tcp_attempts_expire() {
    let mut ch = any_channel(true);
    let now: u32 = kani::any();
    kani::assume(now >= 10);
    unsafe { clock::NOW_S = u64::from(now) };
    let age: u8 = kani::any();
    kani::assume(age <= 5);
    let start = UNIX_EPOCH + Duration::new(u64::from(now) - u64::from(age), 0);
    ch.tcp_probes.push(TcpProbe::new(HSock, Port(kani::any()), Port(kani::any()), start));
    unsafe { sockstate::WRITABLE_MASK = 0 };
    let r = ch.recv_tcp_sockets();
    assert!(matches!(r, Ok(None)));
    // tcp_connect_timeout = 1 s: kept iff elapsed < timeout
    assert!(ch.tcp_probes.len() == if age < 1 { 1 } else { 0 });
    kani::cover!(age == 1, "expires exactly at the timeout");
    std::mem::forget(ch);
    std::mem::forget(r);
}
