// (no harness: TracerInner::new builds the shared State — HashMap/IndexMap/RwLock — which is outside
// what CBMC encodes within reach; make_strategy_config is a field-by-field copy, read not encoded)
